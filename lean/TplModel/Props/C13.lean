import TplModel.Exp.Eval
import TplModel.Spec.Walk
import TplModel.Proofs.AccessProofs
/-! # C13 — member, index and slice access agree with the Go value

"Member access a.name, a['name'], a[i] and slicing a[i:j] / a[i:j:k] return what the corresponding Go
operation returns on the underlying value: exported struct fields (also through a pointer), map entries by
string key, array and slice elements with negative indexes counting from the end, and methods bound to their
receiver. Absent fields or keys, out-of-range indexes or bounds, nil receivers, unexported fields and
unsupported kinds yield an error - never a zero value and never a panic."

Model: `EV.getValue` (exp/reflects.go `getValue`; total, result `found v | absent | failed`; the `.field` and
`.index` cases of `EV.eval` return `v` for `found v` and record an error (`setErr`) for `absent`/`failed`,
`.name`/`['name']` pass the name, `[i]` passes `toString i` = `EV.indexName`), `EV.sliceOf` (the `.slice` case
of `eval` on evaluated bounds, `TplModel/Proofs/AccessProofs.lean`).  Specification: `TplModel/Spec/Walk.lean`.
All statements hold for EVERY value of the universe `EV.Val` and every name / integer.
`TplModel/Props/C13eval.lean` lifts them to statements about `EV.eval` itself (`eval_field`, `eval_index`,
`eval_slice`, `access_total`); `indexName` / `sliceOf` are proved to be what `eval` computes there.

`getValue` and `sliceOf` are total functions: "never a panic" for member and index access is the fact that
`getValue` has no `panic` outcome (the reflect panic on an unexported field is the outcome `failed`);
for slicing, `sliceOf … = panic` stands for the reflect panic that `Evaluate` recovers into an error, and
`slice_spec` says it happens exactly when Go's own slice expression panics. -/
namespace C13
open EV
open Walk (Field)

/-! ## the harness type family (harness/values.go: `vS`, `vIn`, `vPtrS`, `vNilPtrS`) -/

def inV : Val := .struct "In" [("Z", true, false, .int .int 9)]
def nilP : Val := .ptr "S" 0 none
def lV : Val := .slice "[]int" [.int .int 1, .int .int 2] 2
def mV : Val := .map "map[string]interface {}" [("x", .int .int 1)]
/-- `S{A: a, B: b, c: 2, P: p, L: []int{1,2}, M: map[string]any{"x":1}, In: In{9}}` -/
def sV (a : Int) (b : String) (p : Val) : Val :=
  .struct "S" [("A", true, false, .int .int a), ("B", true, false, .str b), ("c", false, false, .int .int 2),
    ("P", true, false, p), ("L", true, false, lV), ("M", true, false, mV), ("In", true, true, inV)]
def s1 : Val := sV 7 "b" nilP
def p1 : Val := .ptr "S" 1 (some s1)
def s2 : Val := sV 8 "c" p1
def arr3 : Val := .array "[3]int" [.int .int 10, .int .int 20, .int .int 30]
/-- a slice of length 2 and capacity 4 -/
def cap4 : Val := .slice "[]int" [.int .int 10, .int .int 20] 4
/-- the later binding of a key is shadowed -/
def dupM : Val := .map "map[string]interface {}" [("k", .int .int 1), ("z", .nil), ("k", .int .int 2)]

/-! ## struct fields -/

/-- a struct operand, `n` not a method: the evaluator follows Go's selector resolution -/
theorem getValue_struct_resolve (n ty : String) (fs : List Field) (hm : n ∉ methodsOf ty false) :
    getValue n (.struct ty fs) =
      match Walk.resolve fs n with
      | some (true, v) => .found v
      | some (false, _) => .failed
      | none => .absent := by
  rw [getValue_eq_afterMethods n _ (by simpa [NoMethod] using hm), afterMethods_struct]
  cases Walk.resolve fs n with
  | none => rfl
  | some r => obtain ⟨ex, y⟩ := r; cases ex <;> rfl

/-- `found v` iff Go's `x.n` is the EXPORTED field (declared or promoted through an embedded struct) with value
    `v`; `failed` iff the field exists but is unexported; `absent` iff there is no such field -/
theorem getValue_struct_field (n ty : String) (fs : List Field) (hm : n ∉ methodsOf ty false) :
    (∀ v, getValue n (.struct ty fs) = .found v ↔ Walk.field (.struct ty fs) n = some v) ∧
    (getValue n (.struct ty fs) = .failed ↔ ∃ v, Walk.resolve fs n = some (false, v)) ∧
    (getValue n (.struct ty fs) = .absent ↔ Walk.resolve fs n = none) := by
  rw [getValue_struct_resolve n ty fs hm]
  simp only [Walk.field, hm, if_false, Walk.member, Walk.structField]
  cases Walk.resolve fs n with
  | none => simp
  | some r => obtain ⟨ex, y⟩ := r; cases ex <;> simp

/-- a method of the struct's method set is returned bound to the operand (and wins over a field) -/
theorem getValue_struct_method (n ty : String) (fs : List Field) (hm : n ∈ methodsOf ty false) :
    getValue n (.struct ty fs) = .found (.meth ty n (.struct ty fs)) ∧
    Walk.field (.struct ty fs) n = some (.meth ty n (.struct ty fs)) := by
  rw [getValue_struct_eq, if_pos (by simpa using hm)]
  simp [Walk.field, hm]

example : "A" ∉ methodsOf "S" false ∧ "Z" ∉ methodsOf "S" false ∧ "c" ∉ methodsOf "S" false := by decide
example : getValue "A" s1 = .found (.int .int 7) ∧ Walk.field s1 "A" = some (.int .int 7) := ⟨rfl, rfl⟩
/-- promoted through the embedded `In` -/
example : getValue "Z" s1 = .found (.int .int 9) ∧ Walk.field s1 "Z" = some (.int .int 9) := ⟨rfl, rfl⟩
/-- unexported -/
example : getValue "c" s1 = .failed ∧ Walk.field s1 "c" = none := ⟨rfl, rfl⟩
/-- absent -/
example : getValue "Q" s1 = .absent ∧ Walk.field s1 "Q" = none := ⟨rfl, rfl⟩
example : "Get" ∈ methodsOf "S" false := by decide
example : getValue "Get" s1 = .found (.meth "S" "Get" s1) := rfl

/-! ## pointers -/

/-- through a non-nil pointer the access is the access on the pointee (`n` not in the pointer's method set;
    the pointee is not itself a pointer and has no method called `n`) -/
theorem getValue_through_pointer (n ty : String) (id : Nat) (t : Val)
    (hm : n ∉ methodsOf ty true) (ht : NoMethod n t) :
    getValue n (.ptr ty id (some t)) = getValue n t := by
  rw [getValue_ptr_eq, if_neg (by simpa using hm), getValue_eq_afterMethods n t ht]

/-- the well-typed case `*T → T`: one hypothesis suffices, the method set of `*T` contains that of `T` -/
theorem getValue_through_pointer_struct (n ty : String) (id : Nat) (fs : List Field)
    (hm : n ∉ methodsOf ty true) :
    getValue n (.ptr ty id (some (.struct ty fs))) = getValue n (.struct ty fs) :=
  getValue_through_pointer n ty id _ hm (fun h => hm (methodsOf_value_sub_ptr ty n h))

/-- nil receiver: an error, never a zero value -/
theorem getValue_nil_pointer (n ty : String) (id : Nat) (hm : n ∉ methodsOf ty true) :
    getValue n (.ptr ty id none) = .absent := by
  rw [getValue_ptr_eq, if_neg (by simpa using hm)]; rfl

/-- a method of the pointer's method set is returned bound to the pointer (nil or not) -/
theorem getValue_pointer_method (n ty : String) (id : Nat) (t : Option Val) (hm : n ∈ methodsOf ty true) :
    getValue n (.ptr ty id t) = .found (.meth ty n (.ptr ty id t)) ∧
    Walk.field (.ptr ty id t) n = some (.meth ty n (.ptr ty id t)) := by
  rw [getValue_ptr_eq, if_pos (by simpa using hm)]
  simp [Walk.field, hm]

/-- a pointer to a pointer is not followed (reflect's `Elem()` is applied once) -/
theorem getValue_pointer_pointer (n ty ty' : String) (id id' : Nat) (t : Option Val)
    (hm : n ∉ methodsOf ty true) :
    getValue n (.ptr ty id (some (.ptr ty' id' t))) = .absent := by
  rw [getValue_ptr_eq, if_neg (by simpa using hm)]; rfl

example : "Z" ∉ methodsOf "S" true ∧ NoMethod "Z" s1 := by decide
example : getValue "Z" p1 = getValue "Z" s1 ∧ getValue "Z" p1 = .found (.int .int 9) := ⟨rfl, rfl⟩
example : getValue "A" nilP = .absent ∧ Walk.field nilP "A" = none := ⟨rfl, rfl⟩
example : "Ptr" ∈ methodsOf "S" true ∧ "Ptr" ∉ methodsOf "S" false := by decide
example : getValue "Ptr" p1 = .found (.meth "S" "Ptr" p1) := rfl
/-- `s2.P.In.Z`, three accesses deep -/
example : (match getValue "P" s2 with
    | .found p => (match getValue "In" p with | .found i => getValue "Z" i | r => r)
    | r => r) = .found (.int .int 9) := rfl

/-! ## maps -/

theorem getValue_map_entry (n ty : String) (kvs : List (String × Val)) :
    getValue n (.map ty kvs) =
      match Walk.mapEntry kvs n with
      | some v => .found v
      | none => .absent := by
  rw [getValue_map_eq, afterMethods_map]
  cases Walk.mapEntry kvs n <;> rfl

/-- `found v` for the first binding of key `n`, `absent` when no binding has that key, never `failed` -/
theorem getValue_map (n ty : String) (kvs : List (String × Val)) :
    (∀ v, getValue n (.map ty kvs) = .found v ↔
        ∃ pre post, kvs = pre ++ (n, v) :: post ∧ ∀ kv ∈ pre, kv.1 ≠ n) ∧
    (getValue n (.map ty kvs) = .absent ↔ ∀ kv ∈ kvs, kv.1 ≠ n) ∧
    getValue n (.map ty kvs) ≠ .failed ∧
    (∀ v, getValue n (.map ty kvs) = .found v ↔ Walk.field (.map ty kvs) n = some v) := by
  rw [getValue_map_entry]
  refine ⟨fun v => ?_, ?_, ?_, fun v => ?_⟩
  · rw [← mapEntry_eq_some_iff]; cases Walk.mapEntry kvs n <;> simp
  · rw [← mapEntry_eq_none_iff]; cases Walk.mapEntry kvs n <;> simp
  · cases Walk.mapEntry kvs n <;> simp
  · simp only [Walk.field, Walk.member]; cases Walk.mapEntry kvs n <;> simp

example : getValue "k" dupM = .found (.int .int 1) := rfl
/-- a stored nil is found as such; a missing key is an error, not nil -/
example : getValue "z" dupM = .found .nil ∧ getValue "q" dupM = .absent := ⟨rfl, rfl⟩
example : ∃ pre post, [("k", Val.int .int 1), ("z", .nil), ("k", .int .int 2)] = pre ++ ("k", .int .int 1) :: post
    ∧ ∀ kv ∈ pre, kv.1 ≠ "k" := ⟨[], _, rfl, by simp⟩

/-! ## slices and arrays: `a[i]` -/

/-- `a[i]` passes the decimal rendering of `i`; `parseDecInt` reads it back on the whole int64 range -/
theorem parseDecInt_toString (i : Int) (h : -2 ^ 63 ≤ i ∧ i < 2 ^ 63) : parseDecInt (toString i) = some i :=
  EV.parseDecInt_toString i h

/-- agreement with the specification, for every integer `i`.  The hypothesis is a disjunction of two facts
    that are both invariants of the Go program and of which one is enough: the operand's length fits an `int`
    (true of every Go slice and array), or the index is an int64 (true of everything `IsInt` hands to the
    `.index` case).  Without either the statement is false in the value universe (a list of ≥ 2^63 elements
    indexed by 2^63: `parseDecInt` rejects the name as `strconv.ParseInt` does). -/
theorem getValue_index_walk (v : Val) (xs : List Val) (hv : Walk.elems v = some xs) (i : Int)
    (h : xs.length < 2 ^ 63 ∨ IsInt64 i) :
    getValue (toString i) v =
      match Walk.indexFromEnd v i with
      | some x => .found x
      | none => .failed := by
  have hnm : NoMethod (toString i) v := by cases v <;> simp [Walk.elems] at hv <;> trivial
  have hel : Walk.elemsOf v = some xs := by
    cases v <;> simp [Walk.elems] at hv <;> simpa [Walk.elemsOf, Walk.elems] using hv
  rw [getValue_eq_afterMethods _ v hnm, afterMethods_elems _ v xs hv, Walk.indexFromEnd, hel, Option.bind_some]
  by_cases hi : IsInt64 i
  · rw [EV.parseDecInt_toString i hi]
    dsimp only
    cases Walk.elemFromEnd xs i <;> rfl
  · rw [parseDecInt_toString_none i hi]
    have hl : xs.length < 2 ^ 63 := by rcases h with h | h; exact h; exact absurd h hi
    have : Walk.elemFromEnd xs i = none := by
      rw [Walk.elemFromEnd, elem_eq_none_iff]
      unfold IsInt64 at hi
      have hl' : (xs.length : Int) < 2 ^ 63 := by exact_mod_cast hl
      split <;> omega
    rw [this]

/-- `found xs[i]` if `0 ≤ i < len`, `found xs[len+i]` if `-len ≤ i < 0`, `failed` otherwise -/
theorem getValue_index (v : Val) (xs : List Val) (hv : Walk.elems v = some xs) (i : Int)
    (h : xs.length < 2 ^ 63 ∨ IsInt64 i) :
    getValue (toString i) v =
      if h1 : 0 ≤ i ∧ i < xs.length then .found (xs[i.toNat]'(by omega))
      else if h2 : -(xs.length : Int) ≤ i ∧ i < 0 then .found (xs[((xs.length : Int) + i).toNat]'(by omega))
      else .failed := by
  have hel : Walk.elemsOf v = some xs := by
    cases v <;> simp [Walk.elems] at hv <;> simpa [Walk.elemsOf, Walk.elems] using hv
  rw [getValue_index_walk v xs hv i h, Walk.indexFromEnd, hel, Option.bind_some]
  simp only [Walk.elemFromEnd, elem_eq_getElem?]
  by_cases h1 : 0 ≤ i ∧ i < xs.length
  · have hn : ¬ i < 0 := by omega
    rw [dif_pos h1]
    simp only [hn, if_false, h1.1, if_true]
    rw [List.getElem?_eq_getElem (by omega)]
  · rw [dif_neg h1]
    by_cases h2 : -(xs.length : Int) ≤ i ∧ i < 0
    · rw [dif_pos h2]
      have hp : 0 ≤ (xs.length : Int) + i := by omega
      simp only [h2.2, if_true, hp]
      rw [List.getElem?_eq_getElem (by omega)]
    · rw [dif_neg h2]
      by_cases hn : i < 0
      · have hp : ¬ 0 ≤ (xs.length : Int) + i := by omega
        simp only [hn, if_true, hp, if_false]
      · have hp : 0 ≤ i := by omega
        simp only [hn, if_false, hp, if_true]
        rw [List.getElem?_eq_none (by omega)]

/-- a name that is not a decimal int64 is rejected on a slice or array -/
theorem getValue_index_nonnumeric (v : Val) (xs : List Val) (hv : Walk.elems v = some xs) (n : String)
    (hn : parseDecInt n = none) : getValue n v = .failed := by
  have hnm : NoMethod n v := by cases v <;> simp [Walk.elems] at hv <;> trivial
  rw [getValue_eq_afterMethods _ v hnm, afterMethods_elems _ v xs hv, hn]

example : Walk.elems arr3 = some [.int .int 10, .int .int 20, .int .int 30] := rfl
example : getValue (toString (1 : Int)) arr3 = .found (.int .int 20) := by rfl
example : getValue (toString (-1 : Int)) arr3 = .found (.int .int 30) := by rfl
example : getValue (toString (-3 : Int)) arr3 = .found (.int .int 10) := by rfl
example : getValue (toString (3 : Int)) arr3 = .failed ∧ getValue (toString (-4 : Int)) arr3 = .failed := ⟨rfl, rfl⟩
example : getValue (toString (-1 : Int)) lV = .found (.int .int 2) ∧ Walk.indexFromEnd lV (-1) = some (.int .int 2) :=
  ⟨rfl, rfl⟩
example : parseDecInt "x" = none ∧ getValue "x" lV = .failed := ⟨rfl, rfl⟩
example : IsInt64 (-1) ∧ ([Val.nil].length < 2 ^ 63) := by decide
example : parseDecInt (toString (-9223372036854775808 : Int)) = some (-9223372036854775808) := by rfl
example : parseDecInt (toString (9223372036854775808 : Int)) = none := by rfl

/-! ## slicing: `a[lo:hi]`, `a[lo:hi:max]` -/

/-- `sliceOf` and `Walk.slice` unfolded on a sliceable operand -/
private theorem slice_cases (v : Val) (lo hi mx : Option Int) :
    (Walk.sliceable v = none ∧ sliceOf v lo hi mx = .notSliceable ∧ Walk.slice v lo hi mx = none ∧
      ¬ Walk.slicePanics v lo hi mx) ∨
    ∃ ty xs c, Walk.sliceable v = some (ty, xs, c) ∧
      (Walk.slicePanics v lo hi mx ↔ ¬ Walk.InRange (lo.getD 0) (hi.getD xs.length) mx c) ∧
      sliceOf v lo hi mx =
        (if Walk.InRange (lo.getD 0) (hi.getD xs.length) mx c then
          if hi.getD xs.length ≤ xs.length then
            .ok (.slice ty (Walk.segment xs (lo.getD 0).toNat (hi.getD xs.length).toNat)
                  ((mx.getD c).toNat - (lo.getD 0).toNat))
          else .unsupported
        else .panic) ∧
      Walk.slice v lo hi mx =
        (if Walk.WellFormed hi mx ∧ Walk.InRange (lo.getD 0) (hi.getD xs.length) mx c ∧
            hi.getD xs.length ≤ xs.length then
          some (.slice ty (Walk.segment xs (lo.getD 0).toNat (hi.getD xs.length).toNat)
                  ((mx.getD c).toNat - (lo.getD 0).toNat))
        else none) := by
  cases hs : Walk.sliceable v with
  | none =>
    refine Or.inl ⟨rfl, ?_, ?_, ?_⟩
    · rw [sliceOf_eq, hs]
    · rw [Walk.slice, hs]
    · rw [Walk.slicePanics, hs]; exact not_false
  | some r =>
    obtain ⟨ty, xs, c⟩ := r
    refine Or.inr ⟨ty, xs, c, rfl, ?_, ?_, ?_⟩
    · rw [Walk.slicePanics, hs]
    · rw [sliceOf_eq, hs]
    · rw [Walk.slice, hs]

/-- whenever Go's slice expression is defined on the value universe, the evaluator returns its value -/
theorem slice_spec_agrees (v : Val) (lo hi mx : Option Int) (r : Val)
    (h : Walk.slice v lo hi mx = some r) : sliceOf v lo hi mx = .ok r := by
  rcases slice_cases v lo hi mx with ⟨_, _, hw, _⟩ | ⟨ty, xs, c, _, _, hso, hw⟩
  · rw [hw] at h; cases h
  · rw [hw] at h
    split at h
    · next hc => cases h; rw [hso, if_pos hc.2.1, if_pos hc.2.2]
    · cases h

/-- … and conversely, for a well-formed slice expression (in `a[lo:hi:max]` only `lo` may be omitted) -/
theorem slice_spec_ok_iff (v : Val) (lo hi mx : Option Int) (r : Val) (hwf : Walk.WellFormed hi mx) :
    sliceOf v lo hi mx = .ok r ↔ Walk.slice v lo hi mx = some r := by
  refine ⟨fun h => ?_, slice_spec_agrees v lo hi mx r⟩
  rcases slice_cases v lo hi mx with ⟨_, hso, _, _⟩ | ⟨ty, xs, c, _, _, hso, hw⟩
  · rw [hso] at h; cases h
  · rw [hso] at h
    split at h
    · next h1 =>
      split at h
      · next h2 => cases h; rw [hw, if_pos ⟨hwf, h1, h2⟩]
      · cases h
    · cases h

/-- the evaluator's slice panics (recovered by `Evaluate` into an error) exactly when Go's slice expression
    panics: `0 ≤ lo ≤ hi ≤ cap` resp. `0 ≤ lo ≤ hi ≤ max ≤ cap` is violated -/
theorem slice_spec_panic_iff (v : Val) (lo hi mx : Option Int) :
    sliceOf v lo hi mx = .panic ↔ Walk.slicePanics v lo hi mx := by
  rcases slice_cases v lo hi mx with ⟨_, hso, _, hp⟩ | ⟨ty, xs, c, _, hp, hso, _⟩
  · rw [hso]; constructor
    · intro h; cases h
    · intro h; exact absurd h hp
  · rw [hso, hp]
    constructor
    · intro h
      split at h
      · split at h <;> cases h
      · assumption
    · intro h; rw [if_neg h]

/-- outside the model: indices in range, `hi` beyond the length but within the capacity (the result would show
    elements of the backing array that the value universe does not record) -/
theorem slice_spec_unsupported_iff (v : Val) (lo hi mx : Option Int) :
    sliceOf v lo hi mx = .unsupported ↔
      ∃ ty xs c, Walk.sliceable v = some (ty, xs, c) ∧
        Walk.InRange (lo.getD 0) (hi.getD xs.length) mx c ∧ (xs.length : Int) < hi.getD xs.length := by
  rcases slice_cases v lo hi mx with ⟨hs, hso, _, _⟩ | ⟨ty, xs, c, hs, _, hso, _⟩
  · rw [hso, hs]; constructor
    · intro h; cases h
    · rintro ⟨_, _, _, h, _⟩; cases h
  · rw [hso, hs]
    constructor
    · intro h
      split at h
      · next h1 =>
        split at h
        · cases h
        · next h2 => exact ⟨ty, xs, c, rfl, h1, by omega⟩
      · cases h
    · rintro ⟨ty', xs', c', he, h1, h2⟩
      cases he
      rw [if_pos h1, if_neg (by omega)]

/-- an operand that is neither a slice nor an array: `setErr` -/
theorem slice_spec_notSliceable_iff (v : Val) (lo hi mx : Option Int) :
    sliceOf v lo hi mx = .notSliceable ↔ Walk.sliceable v = none := by
  rcases slice_cases v lo hi mx with ⟨hs, hso, _, _⟩ | ⟨ty, xs, c, hs, _, hso, _⟩
  · rw [hso, hs]; exact ⟨fun _ => rfl, fun _ => rfl⟩
  · rw [hso, hs]
    constructor
    · intro h
      split at h
      · split at h <;> cases h
      · cases h
    · intro h; cases h

/-- C13 for slicing, in one statement -/
theorem slice_spec (v : Val) (lo hi mx : Option Int) :
    (∀ r, Walk.slice v lo hi mx = some r → sliceOf v lo hi mx = .ok r) ∧
    (Walk.WellFormed hi mx → ∀ r, sliceOf v lo hi mx = .ok r → Walk.slice v lo hi mx = some r) ∧
    (sliceOf v lo hi mx = .panic ↔ Walk.slicePanics v lo hi mx) ∧
    (sliceOf v lo hi mx = .notSliceable ↔ Walk.sliceable v = none) :=
  ⟨fun r => slice_spec_agrees v lo hi mx r,
   fun hwf r => (slice_spec_ok_iff v lo hi mx r hwf).mp,
   slice_spec_panic_iff v lo hi mx, slice_spec_notSliceable_iff v lo hi mx⟩

/-- what the result of a defined slice expression consists of: the elements `lo … hi-1` of the operand, with
    capacity `cap - lo` resp. `max - lo` -/
theorem slice_elements (v : Val) (lo hi mx : Option Int) (r : Val) (h : Walk.slice v lo hi mx = some r) :
    ∃ ty xs c ys, Walk.sliceable v = some (ty, xs, c) ∧
      r = .slice ty ys ((mx.getD c).toNat - (lo.getD 0).toNat) ∧
      ys.length = (hi.getD xs.length).toNat - (lo.getD 0).toNat ∧
      ∀ k, k < ys.length → ys[k]? = xs[(lo.getD 0).toNat + k]? := by
  rcases slice_cases v lo hi mx with ⟨_, _, hw, _⟩ | ⟨ty, xs, c, hs, _, _, hw⟩
  · rw [hw] at h; cases h
  · rw [hw] at h
    split at h
    · next hc =>
      cases h
      have hle : (hi.getD xs.length).toNat ≤ xs.length := by omega
      refine ⟨ty, xs, c, _, hs, rfl, segment_length xs _ _ hle, fun k hk => ?_⟩
      rw [segment_length xs _ _ hle] at hk
      rw [segment_getElem?, if_pos (by omega)]
    · cases h

example : sliceOf arr3 (some 1) (some 2) none = .ok (.slice "[]int" [.int .int 20] 2)
    ∧ Walk.slice arr3 (some 1) (some 2) none = some (.slice "[]int" [.int .int 20] 2) := ⟨rfl, rfl⟩
example : sliceOf arr3 none none none = .ok (.slice "[]int" [.int .int 10, .int .int 20, .int .int 30] 3) := rfl
example : sliceOf cap4 (some 1) (some 2) (some 3) = .ok (.slice "[]int" [.int .int 20] 2)
    ∧ Walk.slice cap4 (some 1) (some 2) (some 3) = some (.slice "[]int" [.int .int 20] 2) := ⟨rfl, rfl⟩
example : Walk.WellFormed (some 2) (some 3) ∧ ¬ Walk.WellFormed none (some 3) := by decide
/-- `hi` beyond the capacity, `lo > hi`, negative `lo`, `max > cap`: Go panics, and so does the evaluator -/
example : Walk.slicePanics arr3 (some 1) (some 4) none ∧ sliceOf arr3 (some 1) (some 4) none = .panic :=
  ⟨by decide, rfl⟩
example : Walk.slicePanics lV (some 2) (some 1) none ∧ sliceOf lV (some 2) (some 1) none = .panic := ⟨by decide, rfl⟩
example : Walk.slicePanics lV (some (-1)) none none ∧ sliceOf lV (some (-1)) none none = .panic := ⟨by decide, rfl⟩
example : Walk.slicePanics cap4 none (some 1) (some 5) ∧ sliceOf cap4 none (some 1) (some 5) = .panic :=
  ⟨by decide, rfl⟩
/-- within the capacity but beyond the length -/
example : sliceOf cap4 none (some 3) none = .unsupported ∧ ¬ Walk.slicePanics cap4 none (some 3) none :=
  ⟨rfl, by decide⟩
example : sliceOf mV none none none = .notSliceable ∧ Walk.sliceable mV = none := ⟨rfl, rfl⟩

/-! ## unsupported kinds -/

/-- anything that is not a struct, pointer, map, slice or array has no members -/
theorem getValue_unsupported_kind (n : String) (v : Val)
    (h0 : ∀ ty id t, v ≠ .ptr ty id t)
    (h1 : ∀ ty fs, v ≠ .struct ty fs) (h2 : ∀ ty kvs, v ≠ .map ty kvs)
    (h3 : ∀ ty xs c, v ≠ .slice ty xs c) (h4 : ∀ ty xs, v ≠ .array ty xs) :
    getValue n v = .absent := by
  have hnm : NoMethod n v := by
    cases v with
    | struct ty fs => exact absurd rfl (h1 ty fs)
    | ptr ty id t => exact absurd rfl (h0 ty id t)
    | _ => trivial
  rw [getValue_eq_afterMethods n v hnm, afterMethods_unsupported n v h1 h2 h3 h4]

example : getValue "A" (.int .int 3) = .absent ∧ getValue "0" (.str "ab") = .absent
    ∧ getValue "x" .nil = .absent ∧ getValue "x" (.func "f") = .absent := ⟨rfl, rfl, rfl, rfl⟩

/-! ## never a zero value -/

/-- whatever `getValue` finds is literally stored in the operand (a field value, also of an embedded struct; a
    map entry's value; an element; possibly behind one pointer) or is the method `n` bound to the operand.
    No value is ever made up: a missing member is never answered with nil or a zero value. -/
theorem access_never_zero_value (n : String) (v x : Val) (h : getValue n v = .found x) :
    Walk.Stored x v ∨ ∃ ty, x = .meth ty n v := by
  cases v with
  | struct ty fs =>
    rw [getValue_struct_eq] at h
    split at h
    · simp only [Look.found.injEq] at h; exact Or.inr ⟨ty, h.symm⟩
    · exact Or.inl (afterMethods_stored n _ x h)
  | ptr ty id t =>
    rw [getValue_ptr_eq] at h
    split at h
    · simp only [Look.found.injEq] at h; exact Or.inr ⟨ty, h.symm⟩
    · cases t with
      | none => cases h
      | some t => exact Or.inl (Walk.Stored.deref (afterMethods_stored n t x h))
  | nil => cases h
  | map ty kvs => exact Or.inl (afterMethods_stored n _ x h)
  | slice ty xs c => exact Or.inl (afterMethods_stored n _ x h)
  | array ty xs => exact Or.inl (afterMethods_stored n _ x h)
  | bool _ => cases h
  | int _ _ => cases h
  | f64 _ => cases h
  | f32 _ => cases h
  | str _ => cases h
  | func _ => cases h
  | meth _ _ _ => cases h

/-- `Stored` is not vacuous: nothing is stored in an empty container or behind a nil pointer … -/
theorem not_stored_empty (x : Val) (ty : String) (id c : Nat) :
    ¬ Walk.Stored x (.struct ty []) ∧ ¬ Walk.Stored x (.map ty []) ∧ ¬ Walk.Stored x (.slice ty [] c)
    ∧ ¬ Walk.Stored x (.array ty []) ∧ ¬ Walk.Stored x (.ptr ty id none) ∧ ¬ Walk.Stored x .nil := by
  refine ⟨?_, ?_, ?_, ?_, ?_, ?_⟩ <;> intro h <;> cases h <;> simp_all

/-- … so all a nil receiver can yield is a bound method -/
theorem nil_receiver_only_methods (n ty : String) (id : Nat) (x : Val)
    (h : getValue n (.ptr ty id none) = .found x) : ∃ ty', x = .meth ty' n (.ptr ty id none) := by
  rcases access_never_zero_value n _ x h with hs | hm
  · exact absurd hs (not_stored_empty x ty id 0).2.2.2.2.1
  · exact hm

example : getValue "Z" s1 = .found (.int .int 9) ∧ Walk.Stored (.int .int 9) s1 :=
  ⟨rfl, Walk.Stored.promoted (ty := "S") "In" true "In" [("Z", true, false, .int .int 9)]
    (by repeat (first | exact List.mem_cons_self | apply List.mem_cons_of_mem))
    (Walk.Stored.field "Z" true false List.mem_cons_self)⟩

/-! ## the whole of `getValue` against the specification -/

/-- `getValue n v` finds `x` iff Go's member access `v.n` / `v["n"]` yields `x`, or `n` is a decimal int64 `i`
    and the template language's `v[i]` (negative `i` from the end) yields `x`.  Hence, when neither is
    defined — absent field or key, unexported field, index out of range, nil receiver, unsupported kind —
    the result is `absent` or `failed`, which the evaluator reports as an error. -/
theorem access_matches_walk (n : String) (v x : Val) :
    getValue n v = .found x ↔
      Walk.field v n = some x ∨ ∃ i, parseDecInt n = some i ∧ Walk.indexFromEnd v i = some x := by
  have core : ∀ t : Val, (afterMethods n (some t) = .found x ↔
      Walk.member t n = some x ∨
      ∃ i, parseDecInt n = some i ∧ (Walk.elems t).bind (Walk.elemFromEnd · i) = some x) := by
    intro t
    rw [afterMethods_found_iff]
    constructor
    · rintro (h | ⟨xs, i, hxs, hp, hx⟩)
      · exact Or.inl h
      · exact Or.inr ⟨i, hp, by rw [hxs]; exact hx⟩
    · rintro (h | ⟨i, hp, hx⟩)
      · exact Or.inl h
      · cases hxs : Walk.elems t with
        | none => rw [hxs] at hx; cases hx
        | some xs => rw [hxs] at hx; exact Or.inr ⟨xs, i, rfl, hp, hx⟩
  have plain : ∀ t : Val, NoMethod n t → Walk.field t n = Walk.member t n → Walk.elemsOf t = Walk.elems t →
      (getValue n t = .found x ↔
        Walk.field t n = some x ∨ ∃ i, parseDecInt n = some i ∧ Walk.indexFromEnd t i = some x) := by
    intro t hnm hf he
    rw [getValue_eq_afterMethods n t hnm, core, hf]
    simp only [Walk.indexFromEnd, he]
  cases v with
  | struct ty fs =>
    by_cases hm : n ∈ methodsOf ty false
    · rw [(getValue_struct_method n ty fs hm).1, (getValue_struct_method n ty fs hm).2]
      simp [Walk.indexFromEnd, Walk.elemsOf, Walk.elems, eq_comm]
    · exact plain _ (by simpa [NoMethod] using hm) (by simp [Walk.field, hm]) rfl
  | ptr ty id t =>
    by_cases hm : n ∈ methodsOf ty true
    · rw [(getValue_pointer_method n ty id t hm).1, (getValue_pointer_method n ty id t hm).2,
        method_not_numeric ty true n hm]
      simp [eq_comm]
    · rw [getValue_ptr_eq, if_neg (by simpa using hm)]
      cases t with
      | none => simp [afterMethods, Walk.field, hm, Walk.indexFromEnd, Walk.elemsOf]
      | some t =>
        rw [core]
        simp only [Walk.field, hm, if_false, Walk.indexFromEnd, Walk.elemsOf]
  | nil => exact plain _ trivial rfl rfl
  | map ty kvs => exact plain _ trivial rfl rfl
  | slice ty xs c => exact plain _ trivial rfl rfl
  | array ty xs => exact plain _ trivial rfl rfl
  | bool _ => exact plain _ trivial rfl rfl
  | int _ _ => exact plain _ trivial rfl rfl
  | f64 _ => exact plain _ trivial rfl rfl
  | f32 _ => exact plain _ trivial rfl rfl
  | str _ => exact plain _ trivial rfl rfl
  | func _ => exact plain _ trivial rfl rfl
  | meth _ _ _ => exact plain _ trivial rfl rfl

/-- the error side of C13: when Go's access is not defined, the evaluator's lookup fails -/
theorem invalid_access_is_error (n : String) (v : Val)
    (hf : Walk.field v n = none) (hi : ∀ i, parseDecInt n = some i → Walk.indexFromEnd v i = none) :
    getValue n v = .absent ∨ getValue n v = .failed := by
  cases h : getValue n v with
  | absent => exact Or.inl rfl
  | failed => exact Or.inr rfl
  | found x =>
    rcases (access_matches_walk n v x).mp h with h1 | ⟨i, hp, hx⟩
    · rw [hf] at h1; cases h1
    · rw [hi i hp] at hx; cases hx

example : Walk.field s1 "c" = none ∧ parseDecInt "c" = none ∧ getValue "c" s1 = .failed := ⟨rfl, rfl, rfl⟩

end C13
