import TplModel.Props.Loader
import TplModel.Props.RenderProps
import TplModel.Props.C04hdr
import TplModel.Props.C05refine
/-! # C04 — range renders the element once per item with index and item bound

OBLIGATIONS: C04.extractRange_spec, C04.header_cases, C04.extractRange_trim, C04.F20_witness, RN.exec_refines_ref, RN.Props.range_once_per_item, RN.Props.range_empty, RN.Props.range_error, EN.loaded_manager_ok, EN.execute_refines_loaded, EN.exec_refines_loaded

`C04.extractRange_spec`: the header `idx, item : obj` is split at the first ':' and the first ',' before it, all
parts trimmed (all strings). `C04.F20_witness`: a header-less object containing ':' is mis-split (known finding F20).
`RN.exec_refines_ref`: the re-entrant loop of `processRange` equals `refRange`/`refItems` of the specification: one
rendering of the rest of the element per child scope, separated by the following blank text, in order. -/
