import TplModel.Props.Loader
import TplModel.Props.RenderProps
import TplModel.Props.C05refine
/-! # C03 — conditional chains render exactly the first true branch

OBLIGATIONS: RN.exec_refines_ref, RN.execute_refines, RN.execute_flags, RN.Props.chain_refines_spec, RN.Props.chain_first_true, RN.Props.chain_none_true, RN.Props.unselected_evaluates_only_with, RN.Props.unselected_after_evaluates_only_with, RN.Props.unselected_before_evaluates_with_and_cond, RN.Props.orphan_else_is_error, RN.Props.cond_error_propagates, EN.loaded_manager_ok, EN.execute_refines_loaded, EN.exec_refines_loaded

The chain semantics is that of the structural specification `RN.refNode` (condition phase: `if` evaluates its own
condition; `else-if`/`else` consult the recorded result of the previous sibling tag, are skipped — recording
"satisfied" — when it was true, fail with `unexpectedElse` when there is no record). `RN.exec_refines_ref` shows
that the re-entrant implementation model computes exactly that, for all trees, environments and data, and restores
its flags; `RN.execute_flags`/`execute` start every execution from empty condition records (history independence).
The chain corollaries on `refKids` (first true branch, unselected elements evaluate only their `with`) are in
Props/RenderProps (`RN.Props.chain_*`, listed above); the harness also checks them exhaustively for chains of length ≤ 4. -/
namespace C03
end C03
