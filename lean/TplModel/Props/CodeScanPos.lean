import TplModel.Proofs.CodeScanLoader
import TplModel.Props.C10loader
import TplModel.Props.Callbacks
import TplModel.Props.C01idem
/-! # The directive-value scanner and the loader do not depend on source positions

Models (unchanged): `CS.scan` (`html/scan_code.go`), `EN.compileParts` / `EN.compileAttrS` / … / `EN.loadFiles`
(`html/scan_html.go` `compileAttr`, `html/manager.go`).  Helper lemmas: `TplModel/Proofs/CodeScanAbs.lean` (the scanner
on offsets `CS.oscan`, the simulation `CS.sim`), `TplModel/Proofs/CodeScanLoader.lean` (loader congruences, the generic
loaded-manager invariant).

1. `CS.scan_place`: `CS.scan p cs = (CS.oscan cs).map (place p cs)` — the tokens are those of a position-FREE scan, each
   placed at `p` advanced over a prefix of `cs` (`CS.oscan_wf`: the prefix lengths are the real offsets of the token's
   text in `cs`); `CS.scan_abs`: kinds and values do not depend on `p`.
2. A failed scan is "tokens so far ++ [`CS.errMark`]", `errMark = ⟨begEnd, 0:0, 0:0, "ERR"⟩`; `CS.Succ ts` is
   `ts.getLast? ≠ some errMark`; the loader's test is `EN.codeScanFailed ts` = "the last token has value `ERR` and start
   line 0".  On outputs of `CS.scan` both tests agree and neither depends on the start position — for ALL positions,
   also those with line 0 that cannot occur in a loaded template (`CS.succ_pos_indep`, `codeScanFailed_pos_indep`,
   `failed_iff_marker`): the only tokens with value `ERR` at the end of a scan output are the marker itself (a
   successful scan ends with a one-rune quote token).  The `line == 0` test distinguishes token lists that are NOT scan
   outputs (`codeScanFailed_looks_at_line`).
3. `compileParts_pos_indep`, `compileAttr_pos_indep`, `compileAttr_ok_pos_indep`; `C10L.loaded_attr_parts_anypos`,
   `C10L.loaded_blocks_consumed_anypos`; `C01.second_load_ok_uncond`, `C01.render_idempotent_loaded_uncond` (no
   `NoPrefixedAttrs`); `Callbacks.range_text_from_source`.
Core-only.

OBLIGATIONS: CS.scan_place, CS.scan_abs, CS.oscan_wf, CS.scan_stop_eq, CS.succ_pos_indep, CS.succ_iff_oscan, CS.fail_iff_forget, CSP.scan_translate, CSP.codeScanFailed_pos_indep, CSP.failed_iff_marker, CSP.compileParts_pos_indep, CSP.compileAttr_pos_indep, CSP.compileAttr_ok_pos_indep, C10L.loaded_attr_parts_anypos, C10L.loaded_blocks_consumed_anypos, C01.second_load_ok_uncond, C01.render_idempotent_loaded_uncond, Callbacks.range_text_from_source -/

namespace CSP
open EN
open RN (CAttr Part NodeD Node)

/-! ## 1. positions are translates -/

/-- **scan_translate.** There is ONE list of offset tokens, independent of the start position, such that for every start
    position `p` the scan is that list placed at `p`: token `tok k so eo v` becomes
    `⟨k, adv p (cs.take so), adv p (cs.take eo), v⟩` (start and end are `p` advanced over the first `so` / `eo` runes of
    `cs`), the marker becomes `errMark`.  The offsets are real: `so ≤ eo ≤ cs.length` and `v` is the slice `[so, eo)` of
    `cs` (`CS.OTok.WF`). -/
theorem scan_translate (cs : List Char) :
    ∃ os : List CS.OTok, (∀ t ∈ os, t.WF cs) ∧ ∀ p : HS.Pos, CS.scan p cs = os.map (CS.OTok.place p cs) :=
  ⟨CS.oscan cs, CS.oscan_wf cs, fun p => CS.scan_place p cs⟩

/-- every token of a scan other than the marker ends where its text ends -/
theorem scan_stop_eq (p : HS.Pos) (cs : List Char) :
    ∀ t ∈ CS.scan p cs, t = CS.errMark ∨ t.stop = HS.adv t.start t.value := CS.scan_stop_eq p cs

/-- token by token: same kind, same value, at every index -/
theorem scan_getElem (p q : HS.Pos) (cs : List Char) (i : Nat) (hi : i < (CS.scan p cs).length) :
    ((CS.scan p cs)[i]).kind = ((CS.scan q cs)[i]'(by rw [CS.scan_length q p]; exact hi)).kind ∧
    ((CS.scan p cs)[i]).value = ((CS.scan q cs)[i]'(by rw [CS.scan_length q p]; exact hi)).value := by
  have h := CS.scan_abs p q cs
  have h1 : ((CS.scan p cs).map CS.forget)[i]'(by simpa using hi) =
      ((CS.scan q cs).map CS.forget)[i]'(by rw [List.length_map, CS.scan_length q p]; exact hi) := by
    simp only [h]
  simp only [List.getElem_map] at h1
  exact ⟨congrArg CS.ATok.kind h1, congrArg CS.ATok.value h1⟩

/-! ## 2. failure -/

/-- the loader's failure test gives the same answer for every start position -/
theorem codeScanFailed_pos_indep (p q : HS.Pos) (v : List Char) :
    codeScanFailed (CS.scan p v) = codeScanFailed (CS.scan q v) := EN.codeScanFailed_pos_indep p q v

/-- **failed_iff_marker.** For every start position: the loader rejects the value iff the scan did not succeed iff the
    position-free scan ends with the error marker. -/
theorem failed_iff_marker (p : HS.Pos) (v : List Char) :
    (codeScanFailed (CS.scan p v) = true ↔ ¬ CS.Succ (CS.scan p v)) ∧
    (¬ CS.Succ (CS.scan p v) ↔ (CS.oscan v).getLast? = some .err) := by
  refine ⟨?_, ?_⟩
  · have h := codeScanFailed_scan p v
    cases hc : codeScanFailed (CS.scan p v)
    · simp [h.1 hc]
    · simp only [true_iff]
      intro hs; rw [h.2 hs] at hc; cases hc
  · rw [CS.succ_iff_oscan]; exact Classical.not_not

/-- the `start.line == 0` test of `codeScanFailed` is a test on positions: two token lists with the same kinds and values
    on which it differs — but the second list is not the output of any scan (a scan never ends with a non-marker token
    of value `ERR`, `CS.fail_iff_forget`) -/
theorem codeScanFailed_looks_at_line :
    [CS.errMark].map CS.forget = [(⟨.begEnd, ⟨1, 1⟩, ⟨1, 4⟩, "ERR".toList⟩ : CS.CTok)].map CS.forget ∧
    codeScanFailed [CS.errMark] = true ∧
    codeScanFailed [(⟨.begEnd, ⟨1, 1⟩, ⟨1, 4⟩, "ERR".toList⟩ : CS.CTok)] = false ∧
    ∀ p v, CS.scan p v ≠ [(⟨.begEnd, ⟨1, 1⟩, ⟨1, 4⟩, "ERR".toList⟩ : CS.CTok)] := by
  refine ⟨by decide, by decide, by decide, ?_⟩
  intro p v h
  have hs : CS.Succ (CS.scan p v) := by rw [h]; decide
  have hf := (CS.fail_iff_forget p v).2 (by rw [h]; decide)
  exact hf hs

/-! ## 3. the compiler -/

/-- **compileParts_pos_indep.** Compile the scan of the same value `v` at two start positions into two tables: both
    results are the result `(r, es)` for the empty table (at any position), with the block indices shifted by the size
    of the respective table, and both tables grow by the same expressions `es`. -/
theorem compileParts_pos_indep (p q : HS.Pos) (v : List Char) (tbl tbl' : Tbl) :
    ∃ (r : LoadRes (List Part)) (es : Tbl),
      compileParts (CS.scan p v) tbl = (r.map (List.map (mapPart (tbl.size + ·))), tbl ++ es) ∧
      compileParts (CS.scan q v) tbl' = (r.map (List.map (mapPart (tbl'.size + ·))), tbl' ++ es) := by
  refine ⟨(compileParts (CS.scan p v) #[]).1, (compileParts (CS.scan p v) #[]).2, ?_, ?_⟩
  · have := compileParts_shift tbl (CS.scan p v) #[]
    rwa [tbl_append_empty] at this
  · have := compileParts_shift tbl' (CS.scan q v) #[]
    rw [tbl_append_empty] at this
    rw [this, compileParts_forget _ _ #[] (CS.scan_abs q p v)]
    rfl

/-- **compileAttr_pos_indep.** Two attributes that differ in positions only (same name, same value), compiled into two
    tables: both results are the result `(r, es)` for the empty table, block indices shifted by the size of the
    respective table; both tables grow by the same expressions. -/
theorem compileAttr_pos_indep (cfg : Cfg) (a a' : HS.Attr) (hn : a.name = a'.name) (hv : a.value = a'.value)
    (tbl tbl' : Tbl) :
    ∃ (r : LoadRes CAttr) (es : Tbl),
      compileAttrS cfg a tbl = (r.map (mapAttr (tbl.size + ·)), tbl ++ es) ∧
      compileAttrS cfg a' tbl' = (r.map (mapAttr (tbl'.size + ·)), tbl' ++ es) := by
  refine ⟨(compileAttrS cfg a #[]).1, (compileAttrS cfg a #[]).2, compileAttrS_canon cfg a tbl, ?_⟩
  rw [compileAttrS_canon cfg a' tbl', ← compileAttrS_congr cfg a a' hn hv]
  rfl

/-- success transfers, with the same name and value, the parts up to the index shift, the same appended expressions -/
theorem compileAttr_ok_pos_indep (cfg : Cfg) (a a' : HS.Attr) (hn : a.name = a'.name) (hv : a.value = a'.value)
    (tbl tbl' t : Tbl) (ca : CAttr) (h : compileAttrS cfg a tbl = (.ok ca, t)) :
    ∃ (base : List Part) (es : Tbl), t = tbl ++ es ∧ ca.parts = base.map (mapPart (tbl.size + ·)) ∧
      compileAttrS cfg a' tbl' = (.ok ⟨ca.name, ca.value, base.map (mapPart (tbl'.size + ·))⟩, tbl' ++ es) := by
  obtain ⟨r, es, h1, h2⟩ := compileAttr_pos_indep cfg a a' hn hv tbl tbl'
  rw [h] at h1
  cases r with
  | ok c0 =>
    simp only [LoadRes.map, Prod.mk.injEq, LoadRes.ok.injEq] at h1
    refine ⟨c0.parts, es, h1.2, by rw [h1.1]; rfl, ?_⟩
    rw [h2, h1.1]; rfl
  | err => simp [LoadRes.map] at h1
  | panic => simp [LoadRes.map] at h1
  | unsupported => simp [LoadRes.map] at h1

/-- in particular: whether an attribute compiles does not depend on positions or on the table -/
theorem compileAttr_okB_pos_indep (cfg : Cfg) (a a' : HS.Attr) (hn : a.name = a'.name) (hv : a.value = a'.value)
    (tbl tbl' : Tbl) : (compileAttrS cfg a tbl).1.okB = (compileAttrS cfg a' tbl').1.okB := by
  obtain ⟨r, es, h1, h2⟩ := compileAttr_pos_indep cfg a a' hn hv tbl tbl'
  rw [h1, h2]; simp only [okB_map]

end CSP

/-! ## 3(a). the stored-side theorems of `Props/C10loader.lean` for ANY start position -/
namespace C10L
open EN
open RN (CAttr Part NodeD Node)

/-- **loaded_attr_parts_anypos.** In every loaded manager, every attribute `ca` of every node of every registered
    template is either a plain attribute (no directive prefix, or no value) without compiled parts, or a directive with
    a value `s` such that for EVERY start position — in particular `⟨1, 1⟩` — the code scanner accepts `s` and the parts
    are, token by token, the literals verbatim and for each `${…}` block an index into the manager's expression table
    holding the full parse of that block's text.  (No "there is a start position"; and the first disjunct is now
    exclusive: a directive attribute with a value always has its parts.) -/
theorem loaded_attr_parts_anypos (cfg : Cfg) (fns : List (String × EV.FnSpec)) (files : List (String × String)) (m : Mgr)
    (h : loadFiles cfg fns files = .ok m) :
    ∀ p ∈ m.templates, ∀ d, Sum.inl d ∈ flatD p.2 → ∀ ca ∈ d.attrs,
      ((ca.name.startsWith cfg.attrPrefix = false ∨ ca.value = none) ∧ ca.parts = []) ∨
      ∃ s, ca.value = some s ∧ ca.name.startsWith cfg.attrPrefix = true ∧
        ∀ start : HS.Pos, CS.Succ (CS.scan start s.toList) ∧
          Aligned (PartOK m.cx.exprs) (CS.scan start s.toList) ca.parts := by
  intro p hp d hd ca hca
  obtain ⟨h1, h2⟩ := loaded_attr_invS cfg fns files m h p hp d hd ca hca
  cases hpre : ca.name.startsWith cfg.attrPrefix
  · exact Or.inl ⟨Or.inl rfl, h1 (Or.inl hpre)⟩
  · cases hv : ca.value with
    | none => exact Or.inl ⟨Or.inr rfl, h1 (Or.inr hv)⟩
    | some s => exact Or.inr ⟨s, rfl, rfl, h2 hpre s hv⟩

/-- **loaded_blocks_consumed_anypos.** In every loaded manager, every `.code k` part of every attribute of every template
    refers to a table entry `e` that is the FULL parse of the text `code` of a `${…}` block of that attribute's value
    `s`: for EVERY start position the scan of `s` succeeds and contains a code-value token with value `code`. -/
theorem loaded_blocks_consumed_anypos (cfg : Cfg) (fns : List (String × EV.FnSpec)) (files : List (String × String))
    (m : Mgr) (h : loadFiles cfg fns files = .ok m) :
    ∀ p ∈ m.templates, ∀ d, Sum.inl d ∈ flatD p.2 → ∀ ca ∈ d.attrs, ∀ k, Part.code k ∈ ca.parts →
      ∃ s code e, ca.value = some s ∧ ca.name.startsWith cfg.attrPrefix = true ∧
        m.cx.exprs[k]? = some e ∧ m.cx.exprs[k]! = e ∧
        EL.parseCode (String.ofList code) = .accept e ∧
        (∃ ts consumed tail, EL.lex (String.ofList code) = .ok ts ∧ ts = consumed ++ tail ∧
          EL.expr (4 * ts.length + 8) 0 ts = some (e, tail) ∧
          (tail = [] ∨ ∃ t, t ≠ ";" ∧ tail = [.eos t]) ∧ EL.Tok.lexerr ∉ ts) ∧
        ∀ start : HS.Pos, CS.Succ (CS.scan start s.toList) ∧
          ∃ ct ∈ CS.scan start s.toList, ct.kind = .codeValue ∧ ct.value = code := by
  intro p hp d hd ca hca k hk
  rcases loaded_attr_parts_anypos cfg fns files m h p hp d hd ca hca with ⟨_, h0⟩ | ⟨s, h1, h2, h3⟩
  · rw [h0] at hk; cases hk
  · obtain ⟨ct, hct, hok⟩ := (h3 ⟨1, 1⟩).2.mem_right hk
    unfold PartOK at hok
    cases hkind : ct.kind <;> simp only [hkind] at hok <;> try (cases hok; done)
    obtain ⟨k', e, hk', he, hacc⟩ := hok
    cases hk'
    refine ⟨s, ct.value, e, h1, h2, he, by rw [getElem!_def, he], hacc, C10.parseCode_consumes_all _ _ hacc, ?_⟩
    intro start
    refine ⟨(h3 start).1, ?_⟩
    rw [CS.scan_place] at hct
    obtain ⟨ot, hot, rfl⟩ := List.mem_map.mp hct
    refine ⟨ot.place start s.toList, ?_, ?_, ?_⟩
    · rw [CS.scan_place]; exact List.mem_map_of_mem hot
    · have := congrArg CS.ATok.kind (CS.forget_place start s.toList ot)
      have h' := congrArg CS.ATok.kind (CS.forget_place ⟨1, 1⟩ s.toList ot)
      exact (this.trans h'.symm).trans hkind
    · have := congrArg CS.ATok.value (CS.forget_place start s.toList ot)
      have h' := congrArg CS.ATok.value (CS.forget_place ⟨1, 1⟩ s.toList ot)
      exact this.trans h'.symm

end C10L

/-! ## 3(c). the second load of a rendered `Plain` template succeeds — without `NoPrefixedAttrs` -/
namespace C01
open EN
open RN (CAttr Part NodeD Node NK)

theorem kt_of_forget : ∀ (toks1 toks2 : List HS.Token) (ps : List (List Char)), toks1.length = ps.length →
    toks2.map HS.RT.forget =
      List.zipWith (fun t p => (⟨t.kind, p, t.tag.map HS.RT.forgetTag⟩ : HS.RT.ATok)) toks1 ps →
    toks2.map tokKT = toks1.map tokKT
  | [], toks2, ps, _, h => by
    cases toks2 with
    | nil => rfl
    | cons _ _ => simp at h
  | t1 :: ts1, toks2, ps, hl, h => by
    cases ps with
    | nil => simp at hl
    | cons p ps =>
      cases toks2 with
      | nil => simp at h
      | cons t2 ts2 =>
        simp only [List.map_cons, List.zipWith_cons_cons, List.cons.injEq] at h
        obtain ⟨ht, hr⟩ := h
        have hk : t2.kind = t1.kind := congrArg HS.RT.ATok.kind ht
        have htg : t2.tag.map HS.RT.forgetTag = t1.tag.map HS.RT.forgetTag := congrArg HS.RT.ATok.tag ht
        simp only [List.map_cons, tokKT, hk, htg, kt_of_forget ts1 ts2 ps (by simpa using hl) hr]

/-- **the second load succeeds (unconditionally).**  `C01.second_load_ok` without the side condition `NoPrefixedAttrs`:
    the output of a `Plain` loaded template can be loaded again under every name that is not yet registered, into any
    manager.  (The closing tags of open elements may carry directive attributes, `</p :if="${x}">`; they are printed
    verbatim, scanned again with the same names and values, and compiling them succeeds again because success of
    `compileAttrS` depends neither on source positions nor on the expression table — `compileToks_okB_congr`.) -/
theorem second_load_ok_uncond (cfg : Cfg) (fns : List (String × EV.FnSpec)) (idx : Nat) (name src : String) (m0 m : Mgr)
    (hinv : TplInv cfg m0.templates) (h : addFile cfg fns idx name src m0 = .ok m)
    (r : RN.Node) (hr : (envOf m).tpl name = some r) (hp : RN.Spec.Plain (rcfgOf cfg) r)
    (fuel : Nat) (sc : List EV.Val) (hf : (RN.execute (rcfgOf cfg) (envOf m) fuel r sc).st ≠ .fuel)
    (fns2 : List (String × EV.FnSpec)) (idx2 : Nat) (name2 : String) (m0' : Mgr)
    (hfresh : m0'.templates.any (·.1 == name2) = false) :
    ∃ m2, addFile cfg fns2 idx2 name2 (String.join (RN.execute (rcfgOf cfg) (envOf m) fuel r sc).out) m0' = .ok m2 := by
  obtain ⟨toks1, items1, tbl1, hs1, hc1, rfl⟩ := load_items cfg fns idx name src m0 m h r hr
  obtain ⟨_, _, ho1⟩ := render_items cfg fns idx name src m0 m hinv h items1 hr hp fuel sc hf
  obtain ⟨toks2, hs2, hfg, hcore⟩ := second_core cfg src.toList toks1 hs1 _ _ _ items1 hc1 hp
  have hal1 : Aligned PartRel toks1 ((emits ⟨[], []⟩ items1).map entryPrint) := by
    have := assemble_parts (compileToks_rel cfg _ _ _ _ _ hc1).1 ((annotate_plain _ _).mp hp)
    rwa [assemble_kids_flat] at this
  have hkt : toks2.map tokKT = toks1.map tokKT :=
    kt_of_forget toks1 toks2 _ (by rw [List.length_map]; exact hal1.length_eq) hfg
  have hok : (compileToks cfg (firstId idx2) toks2 m0'.cx.exprs).1.okB = true := by
    rw [compileToks_okB_congr cfg toks2 toks1 _ (firstId idx) _ m0.cx.exprs hkt, hc1]; rfl
  obtain ⟨items2, hi2⟩ := okB_iff.mp hok
  obtain ⟨tbl2', hc2⟩ : ∃ tbl2', compileToks cfg (firstId idx2) toks2 m0'.cx.exprs = (.ok items2, tbl2') :=
    ⟨_, Prod.ext hi2 rfl⟩
  obtain ⟨hp2, _⟩ := hcore _ _ _ _ hc2
  rw [ho1]
  unfold addFile
  simp only [hfresh, Bool.false_eq_true, if_false, hs2, registerFile, buildTreeS, hc2, mapRes, LoadRes.map,
    addDefined_plain cfg _ _ _ hp2, withTemplates]
  exact ⟨_, rfl⟩

/-- **render_idempotent, fully unconditional form**: the output of a `Plain` loaded template CAN be loaded again under
    any fresh name, and rendering it yields the same output. -/
theorem render_idempotent_loaded_uncond (cfg : Cfg) (fns : List (String × EV.FnSpec)) (idx : Nat) (name src : String)
    (m0 m : Mgr) (hinv : TplInv cfg m0.templates) (h : addFile cfg fns idx name src m0 = .ok m)
    (r : RN.Node) (hr : (envOf m).tpl name = some r) (hp : RN.Spec.Plain (rcfgOf cfg) r)
    (fuel : Nat) (sc : List EV.Val) (hf : (RN.execute (rcfgOf cfg) (envOf m) fuel r sc).st ≠ .fuel)
    (fns2 : List (String × EV.FnSpec)) (idx2 : Nat) (name2 : String) (m0' : Mgr) (hinv2 : TplInv cfg m0'.templates)
    (hfresh : m0'.templates.any (·.1 == name2) = false) :
    ∃ m2 r2, addFile cfg fns2 idx2 name2 (String.join (RN.execute (rcfgOf cfg) (envOf m) fuel r sc).out) m0' = .ok m2 ∧
      (envOf m2).tpl name2 = some r2 ∧ RN.Spec.Plain (rcfgOf cfg) r2 ∧
      ∀ (fuel2 : Nat) (sc2 : List EV.Val), (RN.execute (rcfgOf cfg) (envOf m2) fuel2 r2 sc2).st ≠ .fuel →
        (RN.execute (rcfgOf cfg) (envOf m2) fuel2 r2 sc2).st = .ok ∧
        String.join (RN.execute (rcfgOf cfg) (envOf m2) fuel2 r2 sc2).out =
          String.join (RN.execute (rcfgOf cfg) (envOf m) fuel r sc).out := by
  obtain ⟨m2, h2⟩ := second_load_ok_uncond cfg fns idx name src m0 m hinv h r hr hp fuel sc hf fns2 idx2 name2 m0' hfresh
  obtain ⟨toks2, root2, tbl2, _, _, hadd, _, hnew⟩ := addFile_ok h2
  obtain ⟨extra, hextra⟩ := addDefined_prefix cfg _ _ _ _ hadd
  have hr2 : (envOf m2).tpl name2 = some (annotate root2) := by
    simp only [envOf, hextra]
    exact find_registered (root := annotate root2) (extra := extra) hnew
  obtain ⟨hp2, hex⟩ := render_idempotent cfg fns idx name src m0 m hinv h r hr hp fuel sc hf fns2 idx2 name2 m0' m2 hinv2 h2
    _ hr2
  exact ⟨m2, _, h2, hr2, hp2, fun fuel2 sc2 hf2 => ⟨(hex fuel2 sc2 hf2).1, (hex fuel2 sc2 hf2).2.2⟩⟩

end C01

/-! ## 3(b). `<li :range="i, x : xs" :text="${x}">` from the SOURCE TEXT of the attributes

`Callbacks.range_text_concrete` takes the compiled parts of the two attributes and the table entry of the block as
hypotheses.  Here they are DERIVED: the manager is the result of `loadFiles` (default configuration), the node's
descriptor occurs in one of its templates, and the node's attributes are — as NAMES AND VALUES, i.e. as source text —
`:range="i, x : xs"` and `:text="${x}"`.  From `loaded_attr_invS` (every stored directive attribute carries, for the
start position `1:1`, the compiled parts of its stored value) and the kernel-evaluated scan of `"${x}"` the parts are
quote, `${`, block `k`, `}`, quote with `m.cx.exprs[k] = parse "x" = .name "x"`. -/
namespace Callbacks
open EN
open EV (Val FnSpec fmtV)
open RN (CAttr Part NodeD Node NK Cls)
open RN RN.Spec RN.Props

/-- the code scan of the value `"${x}"` at `1:1` -/
theorem scan_text_x : CS.scan ⟨1, 1⟩ ("\"${x}\"" : String).toList =
    [⟨.begEnd, ⟨1, 1⟩, ⟨1, 2⟩, ['"']⟩, ⟨.codeStart, ⟨1, 2⟩, ⟨1, 4⟩, ['$', '{']⟩, ⟨.codeValue, ⟨1, 4⟩, ⟨1, 5⟩, ['x']⟩,
     ⟨.codeEnd, ⟨1, 5⟩, ⟨1, 6⟩, ['}']⟩, ⟨.begEnd, ⟨1, 6⟩, ⟨1, 7⟩, ['"']⟩] := by decide +kernel

theorem parse_x : EL.parseCode (String.ofList ['x']) = .accept (.name "x") := by rfl

/-- a stored attribute `:text="${x}"` of a loaded manager (default prefix) is `liText k` with `exprs[k] = x` -/
theorem text_x_parts {T : Tbl} {ca : CAttr} (hinv : AttrInvS {} T ca) (hn : ca.name = ":text")
    (hv : ca.value = some "\"${x}\"") : ∃ k, ca = liText k ∧ T[k]! = .name "x" := by
  have hpre : ca.name.startsWith ({} : EN.Cfg).attrPrefix = true := by rw [hn]; decide +kernel
  have hal := (hinv.2 hpre _ hv ⟨1, 1⟩).2
  rw [scan_text_x] at hal
  obtain ⟨n, v, ps⟩ := ca
  simp only at hn hv hal
  subst hn hv
  cases hal with
  | cons h1 hal =>
  cases hal with
  | cons h2 hal =>
  cases hal with
  | cons h3 hal =>
  cases hal with
  | cons h4 hal =>
  cases hal with
  | cons h5 hal =>
  cases hal
  simp only [PartOK] at h1 h2 h3 h4 h5
  obtain ⟨k, e, hk, he, hacc⟩ := h3
  rw [parse_x] at hacc
  cases hacc
  subst h1 h2 h4 h5 hk
  exact ⟨k, rfl, by rw [getElem!_def, he]⟩

/-- **range_text_from_source.** The manager `m` was loaded by `loadFiles` with the default configuration; `node` is an
    `li` element whose descriptor occurs in a template of `m` and whose attributes are, as names and values (= source
    text), `:range="i, x : xs"` and `:text="${x}"` (`hsrc`; no hypothesis about compiled parts or table indices).  In
    the scope `sc` the variable `xs` is a slice or an array of values with a modelled `%v`.  Then the element renders
    to the one chunk `<li>`esc(fmt x₁)`</li>` sep … `<li>`esc(fmt xₙ)`</li>` as in `range_text_concrete`. -/
theorem range_text_from_source (fns : List (String × FnSpec)) (files : List (String × String)) (m : Mgr)
    (hload : loadFiles {} fns files = .ok m)
    (p : String × Node) (hp : p ∈ m.templates) (node : Node) (hnode : Sum.inl node.d ∈ flatD p.2)
    (hkind : node.d.kind = .tag) (htag : node.d.tagName = "li")
    (hsrc : node.d.attrs.map (fun c => (c.name, c.value)) =
      [(":range", some "\"i, x : xs\""), (":text", some "\"${x}\"")])
    (sc : List Val) (obj : Val) (ty : String) (xs : List Val) (cap : Nat)
    (hxs : EV.scopeGet sc "xs" = .found obj) (hobj : obj = .slice ty xs cap ∨ obj = .array ty xs)
    (hfmt : ∀ x ∈ xs, ∃ s, fmtV x = some s)
    (f depth : Nat) (nc : NC)
    (hf : (refNode (rcfgOf m.cfg) (envOf m) f depth nc node sc).st ≠ .fuel) :
    refNode (rcfgOf m.cfg) (envOf m) f depth nc node sc =
      { st := .ok,
        out := [String.join ((xs.map fun x => "<li>" ++ RN.escapeHtml ((fmtV x).getD "") ++ node.endVal.getD "").intersperse
                  (node.d.nextBlank.getD ""))],
        log := [], nc := nc } := by
  have hcfg : rcfgOf m.cfg = {} := by rw [(loaded_manager_ok _ _ _ _ hload).1]; rfl
  have hall := loaded_attr_invS {} fns files m hload p hp node.d hnode
  cases hattrs : node.d.attrs with
  | nil => rw [hattrs] at hsrc; simp at hsrc
  | cons a1 rest =>
    cases rest with
    | nil => rw [hattrs] at hsrc; simp at hsrc
    | cons a2 rest =>
      cases rest with
      | cons _ _ => rw [hattrs] at hsrc; simp at hsrc
      | nil =>
        rw [hattrs] at hsrc hall
        simp only [List.map_cons, List.map_nil, List.cons.injEq, Prod.mk.injEq, and_true] at hsrc
        obtain ⟨⟨hn1, hv1⟩, hn2, hv2⟩ := hsrc
        obtain ⟨k, hk1, hk2⟩ := text_x_parts (hall a2 (by simp)) hn2 hv2
        have ha1 : a1 = liRange a1.parts := by
          obtain ⟨n, v, ps⟩ := a1
          simp only at hn1 hv1
          subst hn1 hv1
          rfl
        exact range_text_concrete m hcfg node a1.parts k hkind htag (by rw [hattrs, ← ha1, ← hk1]) hk2 sc obj ty xs cap
          hxs hobj hfmt f depth nc hf

end Callbacks

/-! ## 4. non-vacuity (kernel evaluation) -/
namespace CSP.Examples
open EN
open RN (CAttr Part NodeD Node)

/-- a two-line value with a tab: `"a⏎${x + 1}⇥b"` -/
def v1 : List Char := "\"a\n${x + 1}\tb\"".toList

/-- its position-free scan: offsets instead of positions -/
example : CS.oscan v1 =
    [.tok .begEnd 0 1 ['"'], .tok .literal 1 3 ['a', '\n'], .tok .codeStart 3 5 ['$', '{'],
     .tok .codeValue 5 10 "x + 1".toList, .tok .codeEnd 10 11 ['}'], .tok .literal 11 13 ['\t', 'b'],
     .tok .begEnd 13 14 ['"']] := by decide +kernel

/-- `scan_place` / `scan_abs` on `v1` at `3:7` and at `1:1`: the token lists differ (positions), their position-free
    images agree; the end positions at `3:7` are `3:7` advanced over the first 1, 3, 5, 10, 11, 13, 14 runes (the
    newline resets the column, the tab counts 4) -/
example : CS.scan ⟨3, 7⟩ v1 ≠ CS.scan ⟨1, 1⟩ v1 ∧
    (CS.scan ⟨3, 7⟩ v1).map CS.forget = (CS.scan ⟨1, 1⟩ v1).map CS.forget ∧
    (CS.scan ⟨3, 7⟩ v1).map (·.stop) = [⟨3, 8⟩, ⟨4, 1⟩, ⟨4, 3⟩, ⟨4, 8⟩, ⟨4, 9⟩, ⟨4, 14⟩, ⟨4, 15⟩] ∧
    (CS.scan ⟨1, 1⟩ v1).map (·.stop) = [⟨1, 2⟩, ⟨2, 1⟩, ⟨2, 3⟩, ⟨2, 8⟩, ⟨2, 9⟩, ⟨2, 14⟩, ⟨2, 15⟩] :=
  ⟨by decide +kernel, CS.scan_abs _ _ _, by decide +kernel, by decide +kernel⟩

/-- a value that fails (the `}` is inside a string, the block is never closed): `"a ${f("}") b` -/
def vbad : List Char := "\"a ${f(\"}\") b".toList

example : CS.oscan vbad = [.tok .begEnd 0 1 ['"'], .tok .literal 1 3 ['a', ' '], .tok .codeStart 3 5 ['$', '{'], .err] := by
  decide +kernel

/-- … it fails at EVERY start position (also at the impossible `0:0`), and the loader's test says so -/
example (p : HS.Pos) : ¬ CS.Succ (CS.scan p vbad) ∧ codeScanFailed (CS.scan p vbad) = true := by
  have h : (CS.oscan vbad).getLast? = some .err := by decide +kernel
  have h1 := (CSP.failed_iff_marker p vbad).2.2 h
  exact ⟨h1, (CSP.failed_iff_marker p vbad).1.2 h1⟩

/-- … and `v1` succeeds at every start position -/
example (p : HS.Pos) : CS.Succ (CS.scan p v1) ∧ codeScanFailed (CS.scan p v1) = false := by
  have h : CS.Succ (CS.scan ⟨1, 1⟩ v1) := by decide +kernel
  have h1 := (CS.succ_pos_indep p ⟨1, 1⟩ v1).2 h
  exact ⟨h1, (codeScanFailed_scan p v1).2 h1⟩

/-- `compileAttr_pos_indep` / `compileAttr_ok_pos_indep`: the attribute `:text="a ${x + 1} b"` of
    `C10L.Example.goodAttr` (value at `1:10`), compiled into the empty table … -/
def goodCompiled : Bool :=
  match compileAttrS {} C10L.Example.goodAttr #[] with
  | (.ok ca, t) => ca == ⟨":text", some (String.ofList C10L.Example.goodVal),
      [.other, .lit "a ", .other, .code 0, .other, .lit " b", .other]⟩ && t.size == 1
  | _ => false

theorem goodCompiled_true : goodCompiled = true := by decide +kernel

/-- … and the same attribute somewhere else in a file (value at `40:8`, ending on the next line) -/
def movedAttr : HS.Attr :=
  { C10L.Example.goodAttr with nameStart := ⟨40, 2⟩, nameEnd := ⟨40, 7⟩, valueStart := ⟨40, 8⟩, valueEnd := ⟨41, 3⟩ }

/-- compiled into ANY table `tbl'` it succeeds, the block gets index `tbl'.size`, one expression is appended -/
example (tbl' : Tbl) : ∃ es : Tbl, es.size = 1 ∧ compileAttrS {} movedAttr tbl' =
    (.ok ⟨":text", some (String.ofList C10L.Example.goodVal),
      [.other, .lit "a ", .other, .code (tbl'.size + 0), .other, .lit " b", .other]⟩, tbl' ++ es) := by
  have h := goodCompiled_true
  unfold goodCompiled at h
  split at h
  · rename_i ca t hc
    simp only [Bool.and_eq_true, beq_iff_eq] at h
    obtain ⟨hca, ht⟩ := h
    obtain ⟨base, es, h1, h2, h3⟩ := CSP.compileAttr_ok_pos_indep {} C10L.Example.goodAttr movedAttr rfl rfl #[] tbl' t ca hc
    have hes : es = t := by rw [h1]; simp
    have hbase : base = [.other, .lit "a ", .other, .code 0, .other, .lit " b", .other] := by
      have : base.map (mapPart (0 + ·)) = base := by
        conv => rhs; rw [← List.map_id base]
        apply List.map_congr_left
        intro p _; cases p <;> simp [mapPart]
      rw [← this]
      have h2' : ca.parts = base.map (mapPart ((#[] : Tbl).size + ·)) := h2
      rw [hca] at h2'
      exact h2'.symm
    refine ⟨es, by rw [hes]; exact ht, ?_⟩
    rw [h3, hca, hbase]
    rfl
  · cases h

/-- `loaded_attr_parts_anypos` / `loaded_blocks_consumed_anypos`: the file `C10L.Example.good` loads, its attribute has a
    `.code 0` part, and the conclusion (for every start position) follows -/
example : ∃ m, loadFiles {} [] [("f", C10L.Example.good)] = .ok m ∧
    ∃ p ∈ m.templates, ∃ d, Sum.inl d ∈ flatD p.2 ∧ ∃ ca ∈ d.attrs, Part.code 0 ∈ ca.parts ∧
      ∃ s code e, ca.value = some s ∧ m.cx.exprs[0]? = some e ∧ EL.parseCode (String.ofList code) = .accept e ∧
        ∀ start : HS.Pos, CS.Succ (CS.scan start s.toList) ∧
          ∃ ct ∈ CS.scan start s.toList, ct.kind = .codeValue ∧ ct.value = code := by
  have h := C10L.Example.goodCheck_true
  unfold C10L.Example.goodCheck at h
  split at h
  · rename_i m hm
    refine ⟨m, hm, ?_⟩
    simp only [Bool.and_eq_true, beq_iff_eq] at h
    have h1 := h.1
    cases hm' : m.templates with
    | nil => rw [hm'] at h1; cases h1
    | cons p ps =>
      rw [hm'] at h1
      simp only [List.map_cons, List.cons.injEq, Prod.mk.injEq] at h1
      have h2 := h1.1.2
      have hpm : p ∈ m.templates := by rw [hm']; exact List.mem_cons_self
      refine ⟨p, List.mem_cons_self, ?_⟩
      have hmem : [⟨":text", some "\"a ${x + 1} b\"", [.other, .lit "a ", .other, .code 0, .other, .lit " b", .other]⟩] ∈
          C10L.Example.attrsOf p.2 := by
        rw [h2]; simp
      unfold C10L.Example.attrsOf at hmem
      obtain ⟨e, he, hd⟩ := List.mem_filterMap.mp hmem
      cases e with
      | inl d =>
        simp only [Option.some.injEq] at hd
        have hca : (⟨":text", some "\"a ${x + 1} b\"", [.other, .lit "a ", .other, .code 0, .other, .lit " b", .other]⟩ : CAttr) ∈
            d.attrs := by rw [hd]; exact List.mem_cons_self
        refine ⟨d, he, _, hca, by simp, ?_⟩
        obtain ⟨s, code, e, q1, _, q3, _, q5, _, q7⟩ :=
          C10L.loaded_blocks_consumed_anypos {} [] _ m hm p hpm d he _ hca 0 (by simp)
        exact ⟨s, code, e, q1, q3, q5, q7⟩
      | inr v => cases hd
  · cases h

/-! ### the second load, with a directive attribute on a closing tag -/

/-- `Plain` (no node carries a directive attribute), but the closing tag of the open element `p` does -/
def src2 : String := "<p class=\"a\">t</p :if=\"${x + 1}\" id='k'><br>"

def demo2 : Bool :=
  match addFile {} [] 1 "t" src2 (emptyMgr {} []) with
  | .ok m =>
    match (envOf m).tpl "t" with
    | some r =>
      RN.Spec.plainB (rcfgOf {}) r && decide ((RN.execute (rcfgOf {}) (envOf m) 100 r []).st ≠ .fuel) &&
      (RN.execute (rcfgOf {}) (envOf m) 100 r []).out == ["", "<p class=\"a\">", "t", "</p :if=\"${x + 1}\" id='k'>", "<br>"]
    | none => false
  | _ => false

set_option maxRecDepth 100000 in
theorem demo2_true : demo2 = true := by decide +kernel

set_option maxRecDepth 100000 in
/-- the side condition of the old `C01.second_load_ok` FAILS for `src2` … -/
theorem src2_prefixed : ¬ ∀ toks, HS.scan (scanCfg {}) src2.toList = .ok toks → C01.NoPrefixedAttrs {} toks := by
  intro h
  have hb : (match HS.scan (scanCfg {}) src2.toList with
      | .ok ts => ts.any (fun t => match t.tag with
          | some tg => tg.attrs.any (fun a => (String.ofList a.name).startsWith ":")
          | none => false)
      | .error _ => false) = true := by decide +kernel
  split at hb
  · rename_i ts hs
    obtain ⟨t, ht, h1⟩ := List.any_eq_true.mp hb
    split at h1
    · rename_i tg htg
      obtain ⟨a, ha, h2⟩ := List.any_eq_true.mp h1
      have := h ts hs t ht tg htg a ha
      change (String.ofList a.name).startsWith ":" = false at this
      rw [this] at h2; cases h2
    · cases h1
  · cases hb

/-- … but all hypotheses of `second_load_ok_uncond` hold, so the output can be loaded again under any fresh name into
    any manager (here: a manager that already has 0 or more expressions and templates) -/
example (fns2 : List (String × EV.FnSpec)) (idx2 : Nat) (name2 : String) (m0' : Mgr)
    (hfresh : m0'.templates.any (·.1 == name2) = false) :
    ∃ m r, addFile {} [] 1 "t" src2 (emptyMgr {} []) = .ok m ∧ (envOf m).tpl "t" = some r ∧
      ∃ m2, addFile {} fns2 idx2 name2 (String.join (RN.execute (rcfgOf {}) (envOf m) 100 r []).out) m0' = .ok m2 := by
  have h := demo2_true
  unfold demo2 at h
  split at h
  · rename_i m hm
    split at h
    · rename_i r hr
      simp only [Bool.and_eq_true, decide_eq_true_eq, beq_iff_eq] at h
      obtain ⟨⟨hpl, hf⟩, _⟩ := h
      have hinv : TplInv {} (emptyMgr {} []).templates := by intro p hp; cases hp
      exact ⟨m, r, hm, hr, C01.second_load_ok_uncond {} [] 1 "t" src2 _ m hinv hm r hr hpl 100 [] hf fns2 idx2 name2 m0' hfresh⟩
    · cases h
  · cases h

end CSP.Examples

namespace Callbacks.Examples
open EN
open EV (Val FnSpec fmtV)
open RN (CAttr Part NodeD Node NK Cls)
open RN RN.Spec RN.Props

theorem inl_d_mem_flatD (n : Node) : (Sum.inl n.d : Entry) ∈ flatD n := by
  cases n; simp [flatD, RN.Node.d]

theorem flatDL_mem {k : Node} : ∀ {ks : List Node}, k ∈ ks → ∀ x ∈ flatD k, x ∈ flatDL ks
  | k' :: ks, hk, x, hx => by
    rw [flatDL]
    rcases List.mem_cons.mp hk with rfl | hk
    · exact List.mem_append_left _ hx
    · exact List.mem_append_right _ (flatDL_mem hk x hx)

theorem flatD_kid {n k : Node} (hk : k ∈ n.kids) : ∀ x ∈ flatD k, x ∈ flatD n := by
  intro x hx
  cases n with
  | mk d kids e =>
    rw [flatD]
    exact List.mem_cons_of_mem _ (List.mem_append_left _ (flatDL_mem hk x hx))

/-- **non-vacuity of `range_text_from_source`**: for the manager loaded from the source text
    `<ul>⏎ <li :range="i, x : xs" :text="${x}">-</li>⏎</ul>` and its `li` element all hypotheses hold — the hypotheses about
    the attributes are their names and values only — and the conclusion is the chunk that the run shows -/
example : refNode (rcfgOf m0.cfg) (envOf m0) 20 0 emptyNc li0 data =
    { st := .ok, out := ["<li>a&lt;b</li>\n<li>c&amp;d</li>\n<li>7</li>\n<li>[1 2]</li>"], log := [], nc := emptyNc } := by
  have h := liDemo_true
  simp only [liDemo, Bool.and_eq_true, decide_eq_true_eq, beq_iff_eq] at h
  obtain ⟨⟨⟨⟨⟨⟨⟨⟨⟨⟨⟨⟨hl, _⟩, _⟩, hkind⟩, htag⟩, hattrs⟩, _⟩, hend⟩, hnb⟩, hf⟩, _⟩, _⟩, _⟩ := h
  have hload : loadFiles {} [] [("t", src)] = .ok m0 := by
    unfold m0
    cases hx : loadFiles {} [] [("t", src)] <;> simp only [hx] at hl ⊢ <;> cases hl
  have hroot : (envOf m0).tpl "t" = some root0 := by
    unfold root0
    cases hx : (envOf m0).tpl "t" with
    | some r => rfl
    | none =>
      exfalso
      have : li0.d.tagName = (default : Node).d.tagName := by unfold li0 root0; rw [hx]; rfl
      rw [htag] at this
      revert this; decide +kernel
  obtain ⟨p, hp, hp2⟩ : ∃ p ∈ m0.templates, p.2 = root0 := by
    simp only [envOf, Option.map_eq_some_iff] at hroot
    obtain ⟨p, hp, hp2⟩ := hroot
    exact ⟨p, List.mem_of_find?_eq_some hp, hp2⟩
  have hnode : Sum.inl li0.d ∈ flatD p.2 := by
    rw [hp2]
    unfold li0
    rcases liOf_cases root0 with e | ⟨ul, h1, h2⟩
    · rw [e]; exact inl_d_mem_flatD _
    · exact flatD_kid h1 _ (flatD_kid h2 _ (inl_d_mem_flatD _))
  have hsrc : li0.d.attrs.map (fun c => (c.name, c.value)) =
      [(":range", some "\"i, x : xs\""), (":text", some "\"${x}\"")] := by rw [hattrs]; rfl
  rw [Callbacks.range_text_from_source [] _ m0 hload p hp li0 hnode hkind htag hsrc data _ _ xs0 _ data_xs (.inl rfl) data_fmt
    20 0 emptyNc hf, hend, hnb]
  have : String.join ((xs0.map fun x => "<li>" ++ RN.escapeHtml ((fmtV x).getD "") ++ (some "</li>").getD "").intersperse
      ((some "\n").getD "")) = "<li>a&lt;b</li>\n<li>c&amp;d</li>\n<li>7</li>\n<li>[1 2]</li>" := by decide +kernel
  rw [this]

end Callbacks.Examples
