import TplModel.Generated.Facts
import TplModel.Exp.ScopeTree
import TplModel.Proofs.ScopeTree
/-! # C06 — names resolve innermost-first; fall-through only on "absent"; bindings never leak

Model: `TplModel/Exp/ScopeTree.lean` (`EV.Scope` = arbitrary binary trees of `Combine` over `NewScope` leaves,
`Scope.get` mirrors `combineScope.Get`), `EV.getValue` / `EV.scopeGet` from `TplModel/Exp/Eval.lean` (unchanged).
Helper lemmas: `TplModel/Proofs/ScopeTree.lean`.

The tree theorems are proved for an arbitrary leaf lookup `gv : String → Val → Look` (`…_gen`), then instantiated at
`EV.getValue`. None of the proofs unfolds the `partial` `EV.fieldByName`; the struct lemma is stated relative to it. -/
namespace C06
open EV

/-! ## 1. `Get` on every scope tree = first non-absent answer along the inorder (child-first) leaf sequence -/

theorem get_spec_gen (gv : String → Val → Look) (sc : Scope) (n : String) :
    sc.getWith gv n = firstNonAbsent (sc.inorder.map (fun d => gv n d)) :=
  Scope.getWith_spec gv sc n

/-- for EVERY tree built from `NewScope`/`Combine`/`WithDefaultScope` -/
theorem get_spec (sc : Scope) (n : String) :
    sc.get n = firstNonAbsent (sc.inorder.map (fun d => getValue n d)) :=
  Scope.getWith_spec getValue sc n

/-- what `firstNonAbsent` means: everything before the answer was `absent`, the answer is not
    (so a `found nil` or a `failed` stops the search), and `absent` results only when every leaf says `absent` -/
theorem firstNonAbsent_char (xs : List Look) :
    (firstNonAbsent xs = .absent ↔ ∀ r ∈ xs, r = .absent) ∧
    (∀ pre r post, xs = pre ++ r :: post → (∀ x ∈ pre, x = .absent) → r ≠ .absent → firstNonAbsent xs = r) :=
  ⟨firstNonAbsent_eq_absent xs, fun pre r post h hp hr => h ▸ firstNonAbsent_split pre r post hp hr⟩

/-- leaf-level reading of `get_spec`: if the leaves before position `i` all answer `absent` and leaf `i` does not,
    the tree answers what leaf `i` answers -/
theorem get_first_non_absent (sc : Scope) (n : String) (pre : List Val) (d : Val) (post : List Val)
    (hin : sc.inorder = pre ++ d :: post) (hpre : ∀ x ∈ pre, getValue n x = .absent)
    (hd : getValue n d ≠ .absent) : sc.get n = getValue n d := by
  rw [get_spec, hin, List.map_append, List.map_cons]
  exact firstNonAbsent_split _ _ _ (by simpa using hpre) hd

theorem get_absent_iff (sc : Scope) (n : String) :
    sc.get n = .absent ↔ ∀ d ∈ sc.inorder, getValue n d = .absent := by
  rw [get_spec, firstNonAbsent_eq_absent]; simp

/-! ## 2. fall-through only on `absent` -/

theorem fallthrough_only_on_absent_gen (gv : String → Val → Look) (c p : Scope) (n : String) :
    (Scope.combine c p).getWith gv n = match c.getWith gv n with | .absent => p.getWith gv n | r => r := by
  cases h : c.getWith gv n <;> simp [Scope.getWith, h]

theorem fallthrough_only_on_absent (c p : Scope) (n : String) :
    (Scope.combine c p).get n = match c.get n with | .absent => p.get n | r => r :=
  fallthrough_only_on_absent_gen getValue c p n

/-- the three cases spelled out -/
theorem combine_cases (c p : Scope) (n : String) :
    (∀ v, c.get n = .found v → (Scope.combine c p).get n = .found v) ∧
    (c.get n = .failed → (Scope.combine c p).get n = .failed) ∧
    (c.get n = .absent → (Scope.combine c p).get n = p.get n) := by
  refine ⟨fun v h => ?_, fun h => ?_, fun h => ?_⟩ <;> rw [fallthrough_only_on_absent, h]

/-! ## 3. a binding to nil, or a failing lookup, shadows everything outside -/

/-- the innermost frame is a map that binds `n` to nil (first binding of `n`): the answer is `found nil` whatever
    the parent scope `outer` is -/
theorem found_nil_shadows (ty n : String) (pre post : List (String × Val)) (outer : Scope)
    (hpre : n ∉ pre.map Prod.fst) :
    (Scope.combine (.leaf (.map ty (pre ++ (n, .nil) :: post))) outer).get n = .found .nil := by
  rw [fallthrough_only_on_absent]
  simp only [Scope.get, Scope.getWith, getValue_map, find?_key_first pre .nil post n hpre]

/-- generally: whatever the child tree answers with `found v` (v arbitrary, nil and zero values included) wins -/
theorem found_shadows (c outer : Scope) (n : String) (v : Val) (h : c.get n = .found v) :
    (Scope.combine c outer).get n = .found v := (combine_cases c outer n).1 v h

/-- a lookup that fails for another reason (unexported field, non-integer or out-of-range index) is NOT retried
    in the outer scopes -/
theorem failed_shadows (c outer : Scope) (n : String) (h : c.get n = .failed) :
    (Scope.combine c outer).get n = .failed := (combine_cases c outer n).2.1 h

/-- concrete instance of `failed_shadows`: a slice/array frame never lets a name through -/
theorem slice_frame_never_falls_through (ty n : String) (xs : List Val) (cap : Nat) (outer : Scope) :
    (Scope.combine (.leaf (.slice ty xs cap)) outer).get n = getValue n (.slice ty xs cap) := by
  have h : getValue n (.slice ty xs cap) ≠ .absent := indexLook_ne_absent n xs
  cases hg : getValue n (.slice ty xs cap) with
  | found v => exact found_shadows (.leaf (.slice ty xs cap)) outer n v hg
  | failed => exact failed_shadows (.leaf (.slice ty xs cap)) outer n hg
  | absent => exact absurd hg h

/-! ## 4. only the inorder sequence matters -/

theorem combine_assoc_gen (gv : String → Val → Look) (a b c : Scope) (n : String) :
    (Scope.combine (.combine a b) c).getWith gv n = (Scope.combine a (.combine b c)).getWith gv n := by
  simp only [Scope.getWith_combine, Look.orElse_assoc]

theorem combine_assoc (a b c : Scope) (n : String) :
    (Scope.combine (.combine a b) c).get n = (Scope.combine a (.combine b c)).get n :=
  combine_assoc_gen getValue a b c n

/-- two trees with the same leaf sequence are indistinguishable -/
theorem get_congr_inorder (s t : Scope) (h : s.inorder = t.inorder) (n : String) : s.get n = t.get n := by
  rw [get_spec, get_spec, h]

/-! ## 5. the public constructors -/

/-- `NewScope(nil)` = empty map, observationally the same as a nil leaf -/
theorem newScope_get (d : Val) (n : String) : (NewScope d).get n = getValue n d := by
  cases d <;> rfl

/-- a tree rebuilt through `NewScope`/`Combine` behaves like the abstract tree -/
theorem viaApi_get (sc : Scope) (n : String) : sc.viaApi.get n = sc.get n := by
  induction sc with
  | leaf d => exact newScope_get d n
  | combine c p ihc ihp =>
    simp only [Scope.viaApi, Combine]
    rw [fallthrough_only_on_absent, fallthrough_only_on_absent, ihc, ihp]

/-- the keys of the model's built-in frame are the keys extracted from `exp/scope.go` on this run -/
theorem builtins_match_facts : EV.builtinNames = Facts.builtinNames := by decide

/-- `EV.scopeGet []` — the built-ins pseudo-frame of the renderer model — is exactly `defaultScope.Get` -/
theorem defaultScope_get (n : String) : defaultScope.get n = scopeGet [] n := by
  rw [defaultScope, newScope_get, getValue_builtinFrame]

/-! ## 6. the renderer's chain -/

/-- `EV.scopeGet frames` = first non-absent answer over `frames ++ [builtinFrame]` -/
theorem scopeGet_spec (frames : List Val) (n : String) :
    scopeGet frames n = firstNonAbsent ((frames ++ [builtinFrame]).map (fun d => getValue n d)) := by
  induction frames with
  | nil => simp [firstNonAbsent_cons, firstNonAbsent, Look.orElse_absent, getValue_builtinFrame]
  | cons f rest ih =>
    rw [scopeGet, List.cons_append, List.map_cons, firstNonAbsent_cons, ← ih]
    cases getValue n f <;> rfl

/-- right-nested chain `Combine(NewScope f₁, Combine(NewScope f₂, … Combine(NewScope f_k, defaultScope)))`:
    `Scope.get` agrees with `EV.scopeGet [f₁,…,f_k]`. Correspondence for the built-ins: `scopeGet`'s final
    pseudo-frame (`frames = []`) is the leaf `defaultScope = NewScope builtinFrame` (see `defaultScope_get`). -/
theorem chain_agrees (frames : List Val) (n : String) :
    (Scope.chain frames defaultScope).get n = scopeGet frames n := by
  induction frames with
  | nil => exact defaultScope_get n
  | cons f rest ih =>
    rw [Scope.chain, fallthrough_only_on_absent, ih, scopeGet]
    rfl

/-- the shape the visitor actually builds (`exp/visitor.go`: `WithDefaultScope(s)` around whatever tree the caller
    passed): for EVERY tree `s`, `WithDefaultScope(s).Get` = `scopeGet` on the leaves of `s` in inorder -/
theorem withDefaultScope_agrees (s : Scope) (n : String) :
    (WithDefaultScope s).get n = scopeGet s.inorder n := by
  rw [scopeGet_spec, get_spec]
  rfl

/-- … in particular for the renderer's tree `Combine(Combine(NewScope bₖ, …Combine(NewScope data, global)), default)` -/
theorem renderer_chain_agrees (frames : List Val) (global : Val) (n : String) :
    (WithDefaultScope (Scope.chain frames (NewScope global))).viaApi.get n = scopeGet (frames ++ [global]) n := by
  rw [viaApi_get, withDefaultScope_agrees, Scope.inorder_chain, scopeGet_spec, scopeGet_spec]
  have h : (NewScope global).inorder.map (fun d => getValue n d) = [getValue n global] := by
    cases global <;> rfl
  simp only [List.map_append, h, List.map_cons, List.map_nil]

/-! ## 7. `getValue` per data kind: absent vs found vs failed -/

theorem getValue_absent_cases_nil (n : String) : getValue n .nil = .absent := rfl

/-- maps: absent iff the key is missing … -/
theorem getValue_absent_cases (n ty : String) (kvs : List (String × Val)) :
    getValue n (.map ty kvs) = .absent ↔ n ∉ kvs.map Prod.fst := by
  rw [getValue_map, ← find?_key_none]
  cases kvs.find? (fun kv => kv.1 = n) <;> simp

/-- … otherwise the first binding is found (nil values included) -/
theorem getValue_map_found (n ty : String) (pre post : List (String × Val)) (v : Val)
    (hpre : n ∉ pre.map Prod.fst) :
    getValue n (.map ty (pre ++ (n, v) :: post)) = .found v := by
  rw [getValue_map, find?_key_first pre v post n hpre]

/-- a map lookup never fails -/
theorem getValue_map_ne_failed (n ty : String) (kvs : List (String × Val)) :
    getValue n (.map ty kvs) ≠ .failed := by
  rw [getValue_map]; cases kvs.find? (fun kv => kv.1 = n) <;> simp

/-- structs (relative to the field resolver `EV.fieldByName`, a `partial` def that is not unfolded): method first,
    then exported field ↦ found, unexported ↦ failed, no field ↦ absent -/
theorem getValue_struct_cases (n ty : String) (fs : List (String × Bool × Bool × Val)) :
    getValue n (.struct ty fs) =
      if (methodsOf ty false).contains n then .found (.meth ty n (.struct ty fs))
      else match fieldByName fs n with
        | some (exported, x) => if exported then .found x else .failed
        | none => .absent := getValue_struct n ty fs

/-- nil pointer: absent unless the pointer type has the method -/
theorem getValue_nilptr_cases (n ty : String) (id : Nat) :
    getValue n (.ptr ty id none) =
      if (methodsOf ty true).contains n then .found (.meth ty n (.ptr ty id none)) else .absent :=
  getValue_nilptr n ty id

/-- slices and arrays: never absent — a bad index is `failed` and therefore never falls through -/
theorem getValue_slice_ne_absent (n ty : String) (xs : List Val) (cap : Nat) :
    getValue n (.slice ty xs cap) ≠ .absent ∧ getValue n (.array ty xs) ≠ .absent :=
  ⟨indexLook_ne_absent n xs, indexLook_ne_absent n xs⟩

/-! ## 8. bindings do not leak -/

/-- Lookup is a pure function of the frame list (the scope is an argument, not state): popping the binding frame `b`
    after any lookup `m` under it gives back a scope that answers every `n` as the original frames do; and under `b`
    the outer frames are consulted exactly when `b` answers `absent`. -/
theorem bindings_do_not_leak (b : Val) (frames : List Val) (m n : String) :
    (scopeGet (b :: frames) m, scopeGet (List.tail (b :: frames)) n).2 = scopeGet frames n ∧
    scopeGet (b :: frames) n = match getValue n b with | .absent => scopeGet frames n | r => r :=
  ⟨rfl, by cases h : getValue n b <;> simp [scopeGet, h]⟩

/-- the same for trees: after looking up in `Combine(NewScope b, sc)`, `sc` answers as it did -/
theorem bindings_do_not_leak_tree (b : Val) (sc : Scope) (m n : String) :
    ((Combine (NewScope b) sc).get m, sc.get n).2 = sc.get n := rfl

/-- a binding frame that does not mention `n` is invisible for `n` -/
theorem unrelated_binding_invisible (b : Val) (frames : List Val) (n : String) (h : getValue n b = .absent) :
    scopeGet (b :: frames) n = scopeGet frames n := by
  rw [scopeGet, h]

/-! ## examples (kernel-evaluated) and non-vacuity -/

section Examples

def mp (kvs : List (String × Val)) : Val := .map anyMapTy kvs
def one : Val := .int .int 1
def two : Val := .int .int 2
/-- observable class of a lookup, for `decide` (`Val` has no `DecidableEq`) -/
def cls : Look → String
  | .found v => "found " ++ canon v
  | .absent => "absent"
  | .failed => "failed"

-- a tree that is neither left- nor right-nested
def t1 : Scope :=
  .combine (.combine (.leaf (mp [("a", one)])) (.leaf (mp [("b", .nil), ("a", two)])))
           (.combine (.leaf (.slice "[]int" [one, two] 2)) (.leaf (mp [("b", two), ("zz", one)])))

example : cls (t1.get "a") = "found int:1" := by decide                -- innermost wins
example : cls (t1.get "b") = "found nil" := by decide                  -- nil binding shadows the outer b = 2
example : cls (t1.get "zz") = "failed" := by decide                    -- slice frame: "zz" is not an index → failed, outer zz hidden
example : cls (t1.get "1") = "found int:2" := by decide                -- slice index
example : cls (t1.get "7") = "failed" := by decide                     -- out of range → failed, not absent
example : t1.inorder.length = 4 := by decide
example : cls (firstNonAbsent (t1.inorder.map (fun d => getValue "b" d))) = cls (t1.get "b") := by decide

-- get_spec / get_first_non_absent hypotheses are satisfiable on t1 with a non-empty absent prefix
example : ∃ pre d post, t1.inorder = pre ++ d :: post ∧ pre ≠ [] ∧ (∀ x ∈ pre, getValue "b" x = .absent) ∧
    getValue "b" d ≠ .absent :=
  ⟨[mp [("a", one)]], mp [("b", .nil), ("a", two)], _, rfl, by simp,
    by intro x hx; simp at hx; subst hx; rfl, by intro h; cases h⟩

-- fallthrough_only_on_absent: all three branches occur
example : cls ((Scope.combine (.leaf (mp [])) (.leaf (mp [("x", one)]))).get "x") = "found int:1" := by decide
example : cls ((Scope.combine (.leaf (mp [("x", .nil)])) (.leaf (mp [("x", one)]))).get "x") = "found nil" := by decide
example : cls ((Scope.combine (.leaf (.array "[1]int" [one])) (.leaf (mp [("x", one)]))).get "x") = "failed" := by decide

-- found_nil_shadows: hypothesis satisfiable with a non-empty prefix and an outer scope that binds the name
example : (Scope.combine (.leaf (mp ([("y", one)] ++ ("x", .nil) :: [("x", two)]))) (.leaf (mp [("x", one)]))).get "x"
    = .found .nil :=
  found_nil_shadows anyMapTy "x" [("y", one)] [("x", two)] _ (by decide)

-- failed_shadows: hypothesis satisfiable
example : (Scope.combine (.leaf (.slice "[]int" [one] 1)) (.leaf (mp [("k", one)]))).get "k" = .failed :=
  failed_shadows _ _ "k" rfl

-- combine_assoc on concrete trees where the answer comes from the last leaf
example : cls ((Scope.combine (.combine (.leaf (mp [])) (.leaf .nil)) (.leaf (mp [("q", two)]))).get "q") = "found int:2" ∧
    cls ((Scope.combine (.leaf (mp [])) (.combine (.leaf .nil) (.leaf (mp [("q", two)])))).get "q") = "found int:2" := by decide

-- chain_agrees / withDefaultScope_agrees: user frames shadow built-ins, built-ins are outermost
example : cls ((Scope.chain [mp [("len", one)], mp [("true", .nil)]] defaultScope).get "len") = "found int:1" := by decide
example : cls (scopeGet [mp [("len", one)], mp [("true", .nil)]] "len") = "found int:1" := by decide
example : cls ((Scope.chain [mp [("len", one)], mp [("true", .nil)]] defaultScope).get "true") = "found nil" := by decide
example : cls (scopeGet [mp [("len", one)], mp [("true", .nil)]] "true") = "found nil" := by decide
example : cls ((Scope.chain [mp [("len", one)]] defaultScope).get "false") = "found bool:false" := by decide
example : cls ((Scope.chain [mp [("len", one)]] defaultScope).get "cap") = "found func" := by decide
example : cls ((Scope.chain [mp [("len", one)]] defaultScope).get "nope") = "absent" := by decide
example : cls ((WithDefaultScope t1).get "println") = "failed" := by decide   -- the slice frame of t1 blocks built-ins too
example : cls (scopeGet t1.inorder "println") = "failed" := by decide

-- NewScope(nil)
example : cls ((Combine (NewScope .nil) (NewScope (mp [("x", one)]))).get "x") = "found int:1" := by decide

-- getValue_absent_cases both directions on concrete maps
example : getValue "k" (mp [("a", one), ("b", two)]) = .absent :=
  (getValue_absent_cases "k" anyMapTy _).2 (by decide)
example : getValue "b" (mp [("a", one), ("b", .nil), ("b", two)]) = .found .nil :=
  getValue_map_found "b" anyMapTy [("a", one)] [("b", two)] .nil (by decide)

-- bindings_do_not_leak / unrelated_binding_invisible
example : cls (scopeGet (mp [("i", one)] :: [mp [("i", two)]]) "i") = "found int:1" ∧
    cls (scopeGet [mp [("i", two)]] "i") = "found int:2" := by decide
example : scopeGet (mp [("i", one)] :: [mp [("j", two)]]) "j" = scopeGet [mp [("j", two)]] "j" :=
  unrelated_binding_invisible _ _ "j" rfl

end Examples

end C06
