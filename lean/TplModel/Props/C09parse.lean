import TplModel.Proofs.ParseRoundTrip
/-! # C09 (grouping clause) on the model's real expression parser

`TplModel/Props/C09.lean` proves the table facts and a round trip for the *abstract* precedence climber `PC`.
This file proves the round trip and the grouping clauses for `EL.expr` / `EL.parseCode`, the parser the compiled
driver runs, whose levels are read from `Facts.exprAlts` (re-extracted from the generated ANTLR parser on every
run).  Helper lemmas: `TplModel/Proofs/ParseRoundTrip.lean`.

* fragment: `EL.OpE` — names, literals, `.paren`, the unary operators of the grammar (`! + - ^ * & <-`, all of
  which the model parser accepts in prefix position), the binary operators of the table, `?:`;
* parentheses are explicit `.paren` nodes (that is what `EL.primary` builds); `EL.WellParen e` says every operand
  sits at a level the table admits without parentheses; `EL.parenthesize` inserts exactly the missing ones;
* known finding F19 (the conditional groups to the LEFT in the pinned grammar) is what `WellParen` encodes for the
  else position (`condAlt.2.2 = 2 > 1`), see `cond_groups_left` / `F19_witness_real`. The proofs use
  `condAlt.1 < condAlt.2.2` (`EL.cond_facts`); should the grammar be changed to group to the right this file stops
  compiling at `EL.cond_facts`, on purpose.

Everything is core-only. -/
namespace C09parse
open EL

/-! ## 2. token-level round trip, all trees, explicit fuel -/

/-- Parsing the printed tokens of any well-parenthesised tree of the operator fragment gives back that tree and
    consumes every token, for every fuel `≥ 3 * #tokens + 1`. -/
theorem parse_pp_el_fuel (e : E) (ho : OpE e) (hw : WellParen e) (f : Nat) (hf : 3 * (toks e).length + 1 ≤ f) :
    expr f 0 (toks e) = some (e, []) := by
  have := parse_toks_rest ho hw (rest := []) trivial trivial hf
  simpa using this

/-- the same in the "eventually" form -/
theorem parse_pp_el (e : E) (ho : OpE e) (hw : WellParen e) :
    ∃ n, ∀ f, n ≤ f → expr f 0 (toks e) = some (e, []) :=
  ⟨3 * (toks e).length + 1, parse_pp_el_fuel e ho hw⟩

/-- … also in front of anything that does not continue an expression (`Stop 0`: no binary operator or `?`;
    `Follow`: no `.`, `?.`, `[`, `(`), e.g. the `EOS` token of a trailing newline -/
theorem parse_pp_el_rest (e : E) (ho : OpE e) (hw : WellParen e) (rest : List Tok) (hs : Stop 0 rest)
    (hfo : Follow rest) (f : Nat) (hf : 3 * (toks e).length + 1 ≤ f) :
    expr f 0 (toks e ++ rest) = some (e, rest) :=
  parse_toks_rest ho hw hs hfo hf

/-- `parseCode`'s own fuel `4 * #tokens + 8` is sufficient on these token lists.
    `_partial`: only for token lists printed from the operator fragment. The full statement
    `expr f p ts = some x → expr (4 * ts.length + 8) p ts = some x` for ALL token lists (selectors, index, slice,
    calls included) is not proved here. -/
theorem parseCode_fuel_sufficient_partial (e : E) (ho : OpE e) (hw : WellParen e) :
    expr (4 * (toks e).length + 8) 0 (toks e) = some (e, []) :=
  parse_pp_el_fuel e ho hw _ (by omega)

/-- The minimal-parenthesis printer: for ANY tree of the fragment (no `WellParen` hypothesis) the real parser
    reads `ppToks 0 e` back as `parenthesize e`, which is `e` with `.paren` nodes added (`strip` removes them). -/
theorem parse_ppToks (e : E) (ho : OpE e) (f : Nat) (hf : 3 * (ppToks 0 e).length + 1 ≤ f) :
    expr f 0 (ppToks 0 e) = some (parenthesize e, []) ∧ strip (parenthesize e) = strip e := by
  have h0 : parenAt 0 (parenthesize e) = parenthesize e := parenAt_of_le (Nat.zero_le _)
  unfold ppToks at hf ⊢
  rw [h0] at hf ⊢
  exact ⟨parse_pp_el_fuel _ ho.parenthesize (wellParen_parenthesize ho) f hf, strip_parenthesize ho⟩

/-- minimality of the printer: nothing is added to a tree that is already well parenthesised -/
theorem ppToks_minimal (e : E) (ho : OpE e) (hw : WellParen e) : ppToks 0 e = toks e := by
  unfold ppToks
  rw [parenthesize_of_wellParen ho hw, parenAt_of_le (Nat.zero_le _)]

/-- uniqueness: two well-parenthesised trees with the same printed tokens are equal (the token list determines
    the grouping) -/
theorem toks_injective (e1 e2 : E) (h1 : OpE e1) (w1 : WellParen e1) (h2 : OpE e2) (w2 : WellParen e2)
    (h : toks e1 = toks e2) : e1 = e2 := by
  have a := parse_pp_el_fuel e1 h1 w1 _ (Nat.le_refl _)
  have b := parse_pp_el_fuel e2 h2 w2 (3 * (toks e1).length + 1) (by rw [h]; omega)
  rw [← h, a] at b
  simpa using b

/-! ## 3. grouping clauses on the real parser -/

/-- operands of the grouping clauses: atoms and parenthesised expressions (anything at primary level) -/
def Prim (e : E) : Prop := OpE e ∧ WellParen e ∧ lev e = Facts.unaryOperandLevel + 1

theorem Prim.name (s : String) : Prim (.name s) := ⟨.name s, rfl, rfl⟩
theorem Prim.int (s : String) : Prim (.lit "int" s) := ⟨.int s, rfl, rfl⟩
theorem Prim.paren {e : E} (ho : OpE e) (hw : WellParen e) : Prim (.paren e) := ⟨.paren ho, hw, rfl⟩

theorem lev_bin {o : String} {k : Nat} (hk : binPrec o = some k) (l r : E) : lev (.bin o l r) = k := by
  simp [lev, hk]

theorem wellParen_bin {o : String} {k : Nat} {l r : E} (hk : binPrec o = some k) (hl : k ≤ lev l)
    (hr : k + 1 ≤ lev r) (hwl : WellParen l) (hwr : WellParen r) : WellParen (.bin o l r) := by
  have hf := (binPrec_facts hk).2.2.1
  simp only [WellParen, wellParen, hk, Option.getD_some, hf, Bool.and_eq_true, decide_eq_true_eq]
  exact ⟨⟨⟨hl, hr⟩, hwl⟩, hwr⟩

theorem wellParen_un {o : String} {e : E} (hl : Facts.unaryOperandLevel ≤ lev e) (hw : WellParen e) :
    WellParen (.un o e) := by
  simp only [WellParen, wellParen, Bool.and_eq_true, decide_eq_true_eq]; exact ⟨hl, hw⟩

theorem wellParen_cond {c a b : E} (hc : condAlt.1 ≤ lev c) (ha : condAlt.2.1 ≤ lev a) (hb : condAlt.2.2 ≤ lev b)
    (hwc : WellParen c) (hwa : WellParen a) (hwb : WellParen b) : WellParen (.cond c a b) := by
  simp only [WellParen, wellParen, Bool.and_eq_true, decide_eq_true_eq]
  exact ⟨⟨⟨⟨⟨hc, ha⟩, hb⟩, hwc⟩, hwa⟩, hwb⟩

/-- `a o1 b o2 c` with `level o1 ≥ level o2` is `(a o1 b) o2 c`: the tighter (or equal: left associativity)
    operator on the left wins -/
theorem binary_grouping_left {a b c : E} {o1 o2 : String} {k1 k2 : Nat} (ha : Prim a) (hb : Prim b) (hc : Prim c)
    (h1 : binPrec o1 = some k1) (h2 : binPrec o2 = some k2) (h : k2 ≤ k1) {f : Nat}
    (hf : 3 * ((toks a).length + (toks b).length + (toks c).length + 2) + 1 ≤ f) :
    expr f 0 (toks a ++ .op o1 :: (toks b ++ .op o2 :: toks c)) = some (.bin o2 (.bin o1 a b) c, []) := by
  have f1 := binPrec_facts h1
  have f2 := binPrec_facts h2
  have hw1 : WellParen (.bin o1 a b) :=
    wellParen_bin h1 (by rw [ha.2.2]; omega) (by rw [hb.2.2]; omega) ha.2.1 hb.2.1
  have hw : WellParen (.bin o2 (.bin o1 a b) c) :=
    wellParen_bin h2 (by rw [lev_bin h1]; exact h) (by rw [hc.2.2]; omega) hw1 hc.2.1
  have := parse_pp_el_fuel _ (.bin h2 (.bin h1 ha.1 hb.1) hc.1) hw f
    (by simp only [toks, List.length_append, List.length_cons]; omega)
  simpa [toks] using this

/-- `a o1 b o2 c` with `level o1 < level o2` is `a o1 (b o2 c)` -/
theorem binary_grouping_right {a b c : E} {o1 o2 : String} {k1 k2 : Nat} (ha : Prim a) (hb : Prim b) (hc : Prim c)
    (h1 : binPrec o1 = some k1) (h2 : binPrec o2 = some k2) (h : k1 < k2) {f : Nat}
    (hf : 3 * ((toks a).length + (toks b).length + (toks c).length + 2) + 1 ≤ f) :
    expr f 0 (toks a ++ .op o1 :: (toks b ++ .op o2 :: toks c)) = some (.bin o1 a (.bin o2 b c), []) := by
  have f1 := binPrec_facts h1
  have f2 := binPrec_facts h2
  have hw2 : WellParen (.bin o2 b c) :=
    wellParen_bin h2 (by rw [hb.2.2]; omega) (by rw [hc.2.2]; omega) hb.2.1 hc.2.1
  have hw : WellParen (.bin o1 a (.bin o2 b c)) :=
    wellParen_bin h1 (by rw [ha.2.2]; omega) (by rw [lev_bin h2]; omega) ha.2.1 hw2
  have := parse_pp_el_fuel _ (.bin h1 ha.1 (.bin h2 hb.1 hc.1)) hw f
    (by simp only [toks, List.length_append, List.length_cons]; omega)
  simpa [toks] using this

/-- both cases in one statement -/
theorem binary_grouping {a b c : E} {o1 o2 : String} {k1 k2 : Nat} (ha : Prim a) (hb : Prim b) (hc : Prim c)
    (h1 : binPrec o1 = some k1) (h2 : binPrec o2 = some k2) {f : Nat}
    (hf : 3 * ((toks a).length + (toks b).length + (toks c).length + 2) + 1 ≤ f) :
    expr f 0 (toks a ++ .op o1 :: (toks b ++ .op o2 :: toks c)) =
      some (if k2 ≤ k1 then .bin o2 (.bin o1 a b) c else .bin o1 a (.bin o2 b c), []) := by
  split
  · rename_i h; exact binary_grouping_left ha hb hc h1 h2 h hf
  · rename_i h; exact binary_grouping_right ha hb hc h1 h2 (by omega) hf

/-- a unary operator binds tighter than any binary operator: `u a o b` is `(u a) o b` -/
theorem unary_binds_tighter {a b : E} {u o : String} {k : Nat} (ha : Prim a) (hb : Prim b)
    (hu : unaryOps.contains u = true) (hk : binPrec o = some k) {f : Nat}
    (hf : 3 * ((toks a).length + (toks b).length + 2) + 1 ≤ f) :
    expr f 0 (.op u :: (toks a ++ .op o :: toks b)) = some (.bin o (.un u a) b, []) := by
  have f1 := binPrec_facts hk
  have hw : WellParen (.bin o (.un u a) b) :=
    wellParen_bin hk (by simp only [lev]; omega) (by rw [hb.2.2]; omega)
      (wellParen_un (by rw [ha.2.2]; omega) ha.2.1) hb.2.1
  have := parse_pp_el_fuel _ (.bin hk (.un hu ha.1) hb.1) hw f
    (by simp only [toks, List.length_append, List.length_cons]; omega)
  simpa [toks] using this

/-- … also on the right: `a o u b` is `a o (u b)` -/
theorem unary_operand_right {a b : E} {u o : String} {k : Nat} (ha : Prim a) (hb : Prim b)
    (hu : unaryOps.contains u = true) (hk : binPrec o = some k) {f : Nat}
    (hf : 3 * ((toks a).length + (toks b).length + 2) + 1 ≤ f) :
    expr f 0 (toks a ++ .op o :: .op u :: toks b) = some (.bin o a (.un u b), []) := by
  have f1 := binPrec_facts hk
  have hw : WellParen (.bin o a (.un u b)) :=
    wellParen_bin hk (by rw [ha.2.2]; omega) (by simp only [lev]; omega) ha.2.1
      (wellParen_un (by rw [hb.2.2]; omega) hb.2.1)
  have := parse_pp_el_fuel _ (.bin hk ha.1 (.un hu hb.1)) hw f
    (by simp only [toks, List.length_append, List.length_cons]; omega)
  simpa [toks] using this

/-- the conditional binds loosest, condition side: `a o b ? c : d` is `(a o b) ? c : d` -/
theorem cond_binds_loosest_cond {a b c d : E} {o : String} {k : Nat} (ha : Prim a) (hb : Prim b) (hc : Prim c)
    (hd : Prim d) (hk : binPrec o = some k) {f : Nat}
    (hf : 3 * ((toks a).length + (toks b).length + (toks c).length + (toks d).length + 3) + 1 ≤ f) :
    expr f 0 (toks a ++ .op o :: (toks b ++ .op "?" :: (toks c ++ .op ":" :: toks d))) =
      some (.cond (.bin o a b) c d, []) := by
  have f1 := binPrec_facts hk
  have cl := cond_levels_le
  have hw : WellParen (.cond (.bin o a b) c d) :=
    wellParen_cond (by rw [lev_bin hk]; omega) (by rw [hc.2.2]; exact cl.2.1) (by rw [hd.2.2]; exact cl.2.2)
      (wellParen_bin hk (by rw [ha.2.2]; omega) (by rw [hb.2.2]; omega) ha.2.1 hb.2.1) hc.2.1 hd.2.1
  have := parse_pp_el_fuel _ (.cond (.bin hk ha.1 hb.1) hc.1 hd.1) hw f
    (by simp only [toks, List.length_append, List.length_cons]; omega)
  simpa [toks] using this

/-- the conditional binds loosest, else side: `a ? b : c o d` is `a ? b : (c o d)` -/
theorem cond_binds_loosest_else {a b c d : E} {o : String} {k : Nat} (ha : Prim a) (hb : Prim b) (hc : Prim c)
    (hd : Prim d) (hk : binPrec o = some k) {f : Nat}
    (hf : 3 * ((toks a).length + (toks b).length + (toks c).length + (toks d).length + 3) + 1 ≤ f) :
    expr f 0 (toks a ++ .op "?" :: (toks b ++ .op ":" :: (toks c ++ .op o :: toks d))) =
      some (.cond a b (.bin o c d), []) := by
  have f1 := binPrec_facts hk
  have cl := cond_levels_le
  have hw : WellParen (.cond a b (.bin o c d)) :=
    wellParen_cond (by rw [ha.2.2]; exact cl.1) (by rw [hb.2.2]; exact cl.2.1) (by rw [lev_bin hk]; omega)
      ha.2.1 hb.2.1 (wellParen_bin hk (by rw [hc.2.2]; omega) (by rw [hd.2.2]; omega) hc.2.1 hd.2.1)
  have := parse_pp_el_fuel _ (.cond ha.1 hb.1 (.bin hk hc.1 hd.1)) hw f
    (by simp only [toks, List.length_append, List.length_cons]; omega)
  simpa [toks] using this

/-- … and the then-part, which is delimited by `?` and `:`: `a ? b o c : d` is `a ? (b o c) : d` -/
theorem cond_binds_loosest_then {a b c d : E} {o : String} {k : Nat} (ha : Prim a) (hb : Prim b) (hc : Prim c)
    (hd : Prim d) (hk : binPrec o = some k) {f : Nat}
    (hf : 3 * ((toks a).length + (toks b).length + (toks c).length + (toks d).length + 3) + 1 ≤ f) :
    expr f 0 (toks a ++ .op "?" :: (toks b ++ .op o :: (toks c ++ .op ":" :: toks d))) =
      some (.cond a (.bin o b c) d, []) := by
  have f1 := binPrec_facts hk
  have cl := cond_levels_le
  have c0 : condAlt.2.1 = 0 := by decide
  have hw : WellParen (.cond a (.bin o b c) d) :=
    wellParen_cond (by rw [ha.2.2]; exact cl.1) (by rw [c0]; omega) (by rw [hd.2.2]; exact cl.2.2)
      ha.2.1 (wellParen_bin hk (by rw [hb.2.2]; omega) (by rw [hc.2.2]; omega) hb.2.1 hc.2.1) hd.2.1
  have := parse_pp_el_fuel _ (.cond ha.1 (.bin hk hb.1 hc.1) hd.1) hw f
    (by simp only [toks, List.length_append, List.length_cons]; omega)
  simpa [toks] using this

/-- F19 in general, on the real parser: `a ? b : c ? d : e` is `(a ? b : c) ? d : e` — the conditional groups to
    the LEFT (the property's clause "and to the right" is false of the pinned grammar) -/
theorem cond_groups_left {a b c d e : E} (ha : Prim a) (hb : Prim b) (hc : Prim c) (hd : Prim d) (he : Prim e)
    {f : Nat}
    (hf : 3 * ((toks a).length + (toks b).length + (toks c).length + (toks d).length + (toks e).length + 4) + 1 ≤ f) :
    expr f 0 (toks a ++ .op "?" :: (toks b ++ .op ":" :: (toks c ++ .op "?" :: (toks d ++ .op ":" :: toks e)))) =
      some (.cond (.cond a b c) d e, []) := by
  have cl := cond_levels_le
  have hw : WellParen (.cond (.cond a b c) d e) :=
    wellParen_cond (Nat.le_refl _) (by rw [hd.2.2]; exact cl.2.1) (by rw [he.2.2]; exact cl.2.2)
      (wellParen_cond (by rw [ha.2.2]; exact cl.1) (by rw [hb.2.2]; exact cl.2.1) (by rw [hc.2.2]; exact cl.2.2)
        ha.2.1 hb.2.1 hc.2.1) hd.2.1 he.2.1
  have := parse_pp_el_fuel _ (.cond (.cond ha.1 hb.1 hc.1) hd.1 he.1) hw f
    (by simp only [toks, List.length_append, List.length_cons]; omega)
  simpa [toks] using this

/-- the right-grouped reading is NOT well parenthesised: a bare conditional in else position needs parentheses -/
theorem cond_else_needs_paren (a b c d e : E) : ¬ WellParen (.cond a b (.cond c d e)) := by
  have h : ¬ condAlt.2.2 ≤ condAlt.1 := by decide
  simp only [WellParen, wellParen, lev, Bool.and_eq_true]
  rintro ⟨⟨⟨⟨⟨_, _⟩, hb⟩, _⟩, _⟩, _⟩
  exact h (of_decide_eq_true hb)

/-! ## 4. string level -/

/-- lexing the printed text gives the printed tokens -/
theorem lex_render (e : E) (ho : OpE e) (hg : goodAtoms e = true) : lex (render e) = .ok (toks e) :=
  lex_renderToks _ (toks_good ho hg) (toks_ne_nil ho)

/-- `ParseCode` on the printed text of a well-parenthesised tree accepts exactly that tree.
    `_partial`: atoms are restricted by `goodAtoms` to ASCII identifiers (other than `nil` and the Go keywords),
    `nil`, and decimal integer literals without `_` and leading zeros; float, imaginary, string and
    non-decimal integer literals are excluded (the lexer round trip for those spellings is not proved), and tokens
    are separated by exactly one space. The full statement would drop `goodAtoms` for every literal spelling the
    lexer produces. -/
theorem parseCode_pretty_partial (e : E) (ho : OpE e) (hw : WellParen e) (hg : goodAtoms e = true) :
    parseCode (render e) = .accept e := by
  unfold parseCode
  rw [lex_render e ho hg]
  simp only [parseCode_fuel_sufficient_partial e ho hw]

/-- … and for any tree of the fragment through the minimal-parenthesis printer -/
theorem parseCode_ppToks_partial (e : E) (ho : OpE e) (hg : goodAtoms e = true) :
    parseCode (render (parenthesize e)) = .accept (parenthesize e) ∧ strip (parenthesize e) = strip e := by
  refine ⟨parseCode_pretty_partial _ ho.parenthesize (wellParen_parenthesize ho) ?_, strip_parenthesize ho⟩
  exact goodAtoms_parenthesize ho hg

/-! ## 6. non-vacuity and witnesses (kernel evaluation) -/

/-- `a + b * -(c ? 1 : 2) == nil`, well parenthesised as written -/
def ex1 : E :=
  .bin "==" (.bin "+" (.name "a") (.bin "*" (.name "b")
    (.un "-" (.paren (.cond (.name "c") (.lit "int" "1") (.lit "int" "2")))))) (.lit "nil" "nil")

example : OpE ex1 := by decide +kernel
example : WellParen ex1 := by decide +kernel
example : goodAtoms ex1 = true := by decide +kernel
example : render ex1 = "a + b * - ( c ? 1 : 2 ) == nil" := by decide +kernel
example : expr 43 0 (toks ex1) = some (ex1, []) :=
  parse_pp_el_fuel ex1 (by decide +kernel) (by decide +kernel) 43 (by decide +kernel)
example : parseCode "a + b * - ( c ? 1 : 2 ) == nil" = .accept ex1 :=
  parseCode_pretty_partial ex1 (by decide +kernel) (by decide +kernel) (by decide +kernel)
/-- the same text without the spaces, evaluated directly -/
example : parseCode "a+b*-(c?1:2)==nil" = .accept ex1 := acceptsAs_sound (by decide +kernel)

/-- `(a + b) * c ? d : (e ? f : g)` as a tree WITHOUT parentheses: not well parenthesised, the printer adds both -/
def ex2 : E :=
  .cond (.bin "*" (.bin "+" (.name "a") (.name "b")) (.name "c")) (.name "d")
    (.cond (.name "e") (.name "f") (.name "g"))

example : OpE ex2 := by decide +kernel
example : ¬ WellParen ex2 := by decide +kernel
example : render (parenthesize ex2) = "( a + b ) * c ? d : ( e ? f : g )" := by decide +kernel
example : parseCode "( a + b ) * c ? d : ( e ? f : g )" = .accept (parenthesize ex2) :=
  (parseCode_ppToks_partial ex2 (by decide +kernel) (by decide +kernel)).1
example : strip (parenthesize ex2) = ex2 := eqOp_sound _ _ (by decide +kernel)
/-- without the parentheses the text means another tree (so they were needed) -/
example : parseCode "a + b * c ? d : e ? f : g" =
    .accept (.cond (.cond (.bin "+" (.name "a") (.bin "*" (.name "b") (.name "c"))) (.name "d") (.name "e"))
      (.name "f") (.name "g")) := acceptsAs_sound (by decide +kernel)

/-- F19 witness on the real parser, token level and through `ParseCode` -/
theorem F19_witness_real :
    expr 28 0 [.ident "a", .op "?", .ident "b", .op ":", .ident "c", .op "?", .ident "d", .op ":", .ident "e"] =
      some (.cond (.cond (.name "a") (.name "b") (.name "c")) (.name "d") (.name "e"), []) :=
  cond_groups_left (Prim.name "a") (Prim.name "b") (Prim.name "c") (Prim.name "d") (Prim.name "e") (by decide)

theorem F19_witness_parseCode :
    parseCode "a ? b : c ? d : e" =
      .accept (.cond (.cond (.name "a") (.name "b") (.name "c")) (.name "d") (.name "e")) :=
  acceptsAs_sound (by decide +kernel)

/-- instances of the grouping clauses -/
example : parseCode "a - b - c" = .accept (.bin "-" (.bin "-" (.name "a") (.name "b")) (.name "c")) :=
  acceptsAs_sound (by decide +kernel)
example : expr 16 0 [.ident "a", .op "-", .ident "b", .op "-", .ident "c"] =
    some (.bin "-" (.bin "-" (.name "a") (.name "b")) (.name "c"), []) :=
  binary_grouping_left (k1 := 5) (k2 := 5) (Prim.name "a") (Prim.name "b") (Prim.name "c") (by decide) (by decide)
    (by decide) (by decide)
example : expr 16 0 [.ident "a", .op "+", .ident "b", .op "*", .ident "c"] =
    some (.bin "+" (.name "a") (.bin "*" (.name "b") (.name "c")), []) :=
  binary_grouping_right (k1 := 5) (k2 := 6) (Prim.name "a") (Prim.name "b") (Prim.name "c") (by decide) (by decide)
    (by decide) (by decide)
example : expr 16 0 [.ident "a", .op "&&", .ident "b", .op "||", .ident "c"] =
    some (.bin "||" (.bin "&&" (.name "a") (.name "b")) (.name "c"), []) :=
  binary_grouping_left (k1 := 3) (k2 := 2) (Prim.name "a") (Prim.name "b") (Prim.name "c") (by decide) (by decide)
    (by decide) (by decide)
example : expr 13 0 [.op "-", .ident "a", .op "*", .ident "b"] =
    some (.bin "*" (.un "-" (.name "a")) (.name "b"), []) :=
  unary_binds_tighter (k := 6) (Prim.name "a") (Prim.name "b") (by decide) (by decide) (by decide)
example : expr 22 0 [.ident "a", .op "||", .ident "b", .op "?", .ident "c", .op ":", .ident "d"] =
    some (.cond (.bin "||" (.name "a") (.name "b")) (.name "c") (.name "d"), []) :=
  cond_binds_loosest_cond (k := 2) (Prim.name "a") (Prim.name "b") (Prim.name "c") (Prim.name "d") (by decide)
    (by decide)
example : expr 22 0 [.ident "a", .op "?", .ident "b", .op ":", .ident "c", .op "||", .ident "d"] =
    some (.cond (.name "a") (.name "b") (.bin "||" (.name "c") (.name "d")), []) :=
  cond_binds_loosest_else (k := 2) (Prim.name "a") (Prim.name "b") (Prim.name "c") (Prim.name "d") (by decide)
    (by decide)
/-- the prefix operators `*`, `&`, `<-` are parsed like the others (the evaluator, not the parser, rejects them) -/
example : parseCode "<- a * & b" = .accept (.bin "*" (.un "<-" (.name "a")) (.un "&" (.name "b"))) :=
  acceptsAs_sound (by decide +kernel)
/-- uniqueness instance: a parenthesised operand is primary -/
example : Prim (.paren ex1) := Prim.paren (by decide +kernel) (by decide +kernel)

end C09parse
