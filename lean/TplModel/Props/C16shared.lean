import TplModel.Generated.Facts
/-! # C16 / C15 — an assumption of the model, checked on the source on every run

OBLIGATIONS: C16K.no_shared_containers

The renderer and evaluator models thread no state between executions: an execution is a function of the loaded templates
and its data (C16), and concurrent executions share only read-only trees and the lock-protected idempotent caches of
`Tag` (C15: `Facts.tagHasSyncField`). That rests on the code having no process-wide or manager-wide mutable containers.
`Facts.sharedContainers` lists every package-level `sync.Pool` / `sync.Map` / map variable and every struct field of
type `sync.Pool` / `sync.Map` in the root package, `html/` and `exp/`: there is none. (A correct cache added later makes
this obligation fail although the property may still hold: the check then says so, `no-failing-input-found`.) -/
namespace C16K

theorem no_shared_containers : Facts.sharedContainers = [] := by decide

end C16K
