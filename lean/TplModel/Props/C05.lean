import TplModel.Props.Loader
import TplModel.Props.RenderProps
import TplModel.Props.C05sort
import TplModel.Props.C05refine
/-! # C05 — directives on one element compose in the documented order, each applied once

OBLIGATIONS: C05.weights_documented_order, C05.lt_strict_weak, C05.sortedAttrs_perm, C05.sortedAttrs_sorted, C05.sortedAttrs_stable, C05.sorted_order, C05.sort_order_independent, RN.exec_refines_ref, RN.execute_refines, RN.ref_mono, RN.Props.remove_modes_exact, RN.Props.define_emits_nothing, RN.Props.replace_substitutes, RN.Props.insert_wraps, RN.Props.insert_no_children, RN.Props.dynamic_overrides_static, RN.Props.no_directive_leaks, EN.loaded_manager_ok, EN.execute_refines_loaded, EN.exec_refines_loaded

`C05.weights_documented_order` is proved over the weight table re-extracted from html/tag.go on every run. -/
