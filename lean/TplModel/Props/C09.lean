import TplModel.Generated.Facts
import TplModel.Exp.Parse
import TplModel.Exp.Prec
/-! # C09 — operators follow Go's precedence, associativity and arithmetic

Property theorems only (helper lemmas live in `TplModel/Exp/Prec.lean` and `TplModel/Proofs`).
The table `Facts.exprAlts` is re-extracted from `exp/parser/goexpression_parser.go` on every run, so the first
four obligations are re-proved against what the generated parser says now. -/
namespace C09

/-- Go's binary precedence table (go.dev/ref/spec#Operator_precedence), five levels, tightest first -/
def goTable : List (List String) :=
  [["*", "/", "%", "<<", ">>", "&", "&^"], ["+", "-", "|", "^"], ["==", "!=", "<", "<=", ">", ">="], ["&&"], ["||"]]

def sameSet (a b : List String) : Bool := a.all b.contains && b.all a.contains

/-- The five binary alternatives of the generated parser carry exactly Go's operator classes, in Go's order,
    with strictly decreasing `Precpred` levels 6,5,4,3,2. -/
theorem prec_table_is_go :
    (Facts.exprAlts.take 5).map (·.1) = [6, 5, 4, 3, 2] ∧
    ((Facts.exprAlts.take 5).map (·.2.1)).length = goTable.length ∧
    (List.zipWith sameSet ((Facts.exprAlts.take 5).map (·.2.1)) goTable).all id = true := by decide

/-- Every binary alternative parses its right operand one level tighter: all binary operators associate to the left. -/
theorem binary_left_assoc : ∀ a ∈ Facts.exprAlts.take 5, a.2.2 = [a.1 + 1] := by decide

/-- Unary operators bind tighter than every binary operator. -/
theorem unary_binds_tightest :
    Facts.unaryOperandLevel = 7 ∧ ∀ a ∈ Facts.exprAlts, a.1 < Facts.unaryOperandLevel := by decide

/-- The conditional operator binds loosest. (Its else operand is parsed at level 2, i.e. it groups to the LEFT:
    known finding F19 — the clause "and to the right" of the property is false of the pinned grammar.) -/
theorem cond_binds_loosest :
    Facts.exprAlts.getLast? = some (1, ["?", ":"], [0, 2]) ∧ ∀ a ∈ Facts.exprAlts.take 5, 1 < a.1 := by decide

/-- The expression model used by the driver reads its levels from the same table. -/
theorem model_levels :
    EL.binPrec "*" = some 6 ∧ EL.binPrec "+" = some 5 ∧ EL.binPrec "==" = some 4 ∧ EL.binPrec "&&" = some 3 ∧
    EL.binPrec "||" = some 2 ∧ EL.binRhs "-" = some 6 ∧ EL.condAlt = (1, 0, 2) := by decide

/-- Round trip for the precedence-climbing parser with these levels: printing any expression tree with exactly the
    parentheses the table requires and parsing it back yields the same tree (all trees, all sizes).
    `_partial`: the printer `PC.pp` parenthesises a conditional in else position (left-associative grammar, F19);
    the full-strength statement (no parentheses needed there) is false — see `F19_witness`. -/
theorem parse_pretty_partial (e : PC.Expr) : ∃ n, ∀ f, n ≤ f → PC.expr f 0 (PC.pp 0 e) = some (e, []) :=
  PC.parse_pretty e

/-- F19 witness: `a ? b : c ? d : e` is grouped as `(a ? b : c) ? d : e`. -/
theorem F19_witness :
    PC.expr 20 0 [.atom 0, .q, .atom 1, .colon, .atom 2, .q, .atom 3, .colon, .atom 4] =
      some (.cond (.cond (.atom 0) (.atom 1) (.atom 2)) (.atom 3) (.atom 4), []) := by decide

end C09
