import TplModel.Generated.Facts
import TplModel.Html.Attr
import TplModel.Proofs.AttrProofs
/-! # C05 — `(*Tag).SortedAttr` puts the directives of one element into the documented order

`AT.lt` is the comparator of html/tag.go read literally, `AT.sortedAttrs` the stable sort by it, and the weights
come from `Facts.attrWeights`, which is re-extracted from the map literal in html/tag.go on every run — so the
`decide` proofs below are re-checked against the table the code has NOW.

Side condition `AT.NoPlainDirectiveName pfx l` (decidable): no attribute WITHOUT the prefix is literally named
like a key of the weight map.  It is necessary: the last line of the Go comparator looks the unstripped name of
an unprefixed `x` up in the map, so `<p if=".." :text="..">` gives `lt "if" ":text"` AND `lt ":text" "if"`
(`lt_not_asymm_witness`) and `sort.SliceStable`'s result is then unspecified. -/
namespace C05
open AT

/-! ## the weight table -/

/-- `with < if = else-if = elseif = elif = else < range < remove < 0 = text = raw = insert = replace = define`,
    and the map has no other keys. -/
theorem weights_documented_order :
    wlookup "with" < wlookup "if" ∧
    wlookup "if" = wlookup "else-if" ∧ wlookup "if" = wlookup "elseif" ∧ wlookup "if" = wlookup "elif" ∧
    wlookup "if" = wlookup "else" ∧
    wlookup "else" < wlookup "range" ∧ wlookup "range" < wlookup "remove" ∧ wlookup "remove" < 0 ∧
    wlookup "text" = 0 ∧ wlookup "raw" = 0 ∧ wlookup "insert" = 0 ∧ wlookup "replace" = 0 ∧ wlookup "define" = 0 ∧
    (∀ kv ∈ Facts.attrWeights, kv.1 ∈ directiveNames) ∧ (∀ k ∈ directiveNames, k ∈ weightKeys) := by decide

/-- the names used above are the constants of html/consts.go -/
theorem names_are_consts :
    (["attrWith", "attrIf", "attrElse_If", "attrElseIf", "attrElIf", "attrElse", "attrRange", "attrRemove"].map
      (fun c => (Facts.consts.lookup c).getD "")) = directiveNames := by decide

/-- anything unlisted weighs 0 (all strings) -/
theorem weights_unlisted_zero (s : String) (h : s ∉ directiveNames) : wlookup s = 0 := ((wl_iff s).2.2.2.2).2 h

/-- no weight is positive, so every directive sorts before every plain attribute by weight alone -/
theorem weights_nonpositive (s : String) : wlookup s ≤ 0 := (wlookup_bounds s).2

/-! ## the comparator -/

/-- The comparator is cyclic when a plain attribute is named like a weighted directive. -/
theorem lt_not_asymm_witness : lt ":" "if" ":text" = true ∧ lt ":" ":text" "if" = true := by decide

/-- Under the side condition the comparator is exactly lexicographic comparison of `weight` … -/
theorem lt_iff_weight (pfx : String) (l : List String) (h : NoPlainDirectiveName pfx l) :
    ∀ x ∈ l, ∀ y, lt pfx x y = true ↔
      ((weight pfx x).1 < (weight pfx y).1 ∨ ((weight pfx x).1 = (weight pfx y).1 ∧ (weight pfx x).2 < (weight pfx y).2)) := by
  intro x hx y
  rw [lt_eq_ltR (h x hx) y]
  have bx := wlookup_bounds (strip pfx x)
  have b_y := wlookup_bounds (strip pfx y)
  unfold ltR rank weight
  cases hasPrefix pfx x <;> cases hasPrefix pfx y <;> simp <;> omega

/-- … hence a strict weak order on the attributes of the element: irreflexive, transitive, and incomparability
    is transitive.  (This is what makes the result of `sort.SliceStable` unique.) -/
theorem lt_strict_weak (pfx : String) (l : List String) (h : NoPlainDirectiveName pfx l) :
    (∀ x ∈ l, lt pfx x x = false) ∧
    (∀ x ∈ l, ∀ y ∈ l, ∀ z ∈ l, lt pfx x y = true → lt pfx y z = true → lt pfx x z = true) ∧
    (∀ x ∈ l, ∀ y ∈ l, ∀ z ∈ l, (lt pfx x y = false ∧ lt pfx y x = false) →
      (lt pfx y z = false ∧ lt pfx z y = false) → (lt pfx x z = false ∧ lt pfx z x = false)) := by
  refine ⟨fun x _ => lt_irrefl pfx x, ?_, ?_⟩
  · intro x hx y hy z _
    rw [lt_eq_ltR (h x hx), lt_eq_ltR (h y hy), lt_eq_ltR (h x hx)]
    simp only [ltR, decide_eq_true_eq]
    omega
  · intro x hx y hy z hz
    rw [lt_eq_ltR (h x hx), lt_eq_ltR (h y hy), lt_eq_ltR (h x hx), lt_eq_ltR (h z hz), lt_eq_ltR (h y hy),
      lt_eq_ltR (h z hz)]
    simp only [ltR, decide_eq_false_iff_not]
    omega

/-- incomparable = same weight class -/
theorem incomparable_iff (pfx : String) (l : List String) (h : NoPlainDirectiveName pfx l) :
    ∀ x ∈ l, ∀ y ∈ l, (lt pfx x y = false ∧ lt pfx y x = false) ↔ weight pfx x = weight pfx y := by
  intro x hx y hy
  rw [lt_eq_ltR (h x hx), lt_eq_ltR (h y hy), weight_eq_iff_rank_eq]
  simp only [ltR, decide_eq_false_iff_not]
  omega

/-! ## the sort -/

/-- the result is a permutation of the input (no side condition) -/
theorem sortedAttrs_perm (pfx : String) (l : List String) : (sortedAttrs pfx l).Perm l := isort_perm _ l

/-- the result is sorted: no later element is less than an earlier one -/
theorem sortedAttrs_sorted (pfx : String) (l : List String) (h : NoPlainDirectiveName pfx l) :
    (sortedAttrs pfx l).Pairwise (fun earlier later => lt pfx later earlier = false) := by
  have hs := isort_sorted (rank pfx) l
  rw [← sortedAttrs_eq_rank h] at hs
  refine List.Pairwise.imp_of_mem ?_ hs
  intro a b _ hb hab
  rw [lt_eq_ltR (h b ((sortedAttrs_perm pfx l).mem_iff.1 hb))]
  simp only [ltR, decide_eq_false_iff_not]
  omega

/-- the sort is stable: for every weight class `k` the subsequence of the attributes of that class is unchanged
    (by `incomparable_iff` the classes are exactly the sets of mutually incomparable attributes) -/
theorem sortedAttrs_stable (pfx : String) (l : List String) (h : NoPlainDirectiveName pfx l) (k : Int × Int) :
    (sortedAttrs pfx l).filter (fun n => weight pfx n == k) = l.filter (fun n => weight pfx n == k) := by
  apply isort_filter
  intro a ha b _ hlt
  rw [lt_eq_ltR (h a ha)] at hlt
  exact ltR_ne hlt

/-- sorted + permutation + stable determine the result; here it is, explicitly:
    the `with` attribute(s), then the condition attributes in source order, then `range`, then `remove`, then all
    other directives (text/raw/insert/replace/define/dynamic attributes) in source order, then the plain
    attributes in source order. -/
theorem sorted_order (pfx : String) (l : List String) (h : NoPlainDirectiveName pfx l) :
    sortedAttrs pfx l =
      l.filter (isDir pfx ["with"]) ++ l.filter (isDir pfx condNames) ++ l.filter (isDir pfx ["range"]) ++
      l.filter (isDir pfx ["remove"]) ++ l.filter (isOtherDir pfx directiveNames) ++
      l.filter (fun n => !hasPrefix pfx n) := by
  rw [sortedAttrs_eq_rank h, isortR_classes]
  obtain ⟨h1, h2, h3, h4, h5, h6⟩ := rank_beq pfx
  simp only [classes, Int.reduceNeg, Int.reduceAdd, List.append_nil, List.append_assoc]
  rw [h1, h2, h3, h4, h5, h6]

/-- the negative-weight attributes (with / conditions / range / remove) form a prefix of the result -/
theorem sortedAttrs_neg_prefix (pfx : String) (l : List String) (h : NoPlainDirectiveName pfx l) :
    sortedAttrs pfx l =
      (sortedAttrs pfx l).filter (fun n => decide ((weight pfx n).2 < 0)) ++
      (sortedAttrs pfx l).filter (fun n => decide (0 ≤ (weight pfx n).2)) := by
  have hs := isort_sorted (rank pfx) l
  rw [← sortedAttrs_eq_rank h] at hs
  have := sorted_split (rank pfx) 0 _ hs
  have e1 : (fun n => decide ((weight pfx n).2 < 0)) = (fun n => decide (rank pfx n < 0)) := by
    funext n; simp only [weight_neg_iff]
  have e2 : (fun n => decide (0 ≤ (weight pfx n).2)) = (fun n => decide (0 ≤ rank pfx n)) := by
    funext n
    have := weight_neg_iff pfx n
    apply decide_eq_decide.2; omega
  rw [e1, e2]; exact this

/-- **Order independence.**  Two attribute lists that are permutations of each other, with at most one attribute
    in each weight class below 0 (one `with`, one condition, one `range`, one `remove`), give the same
    negative-weight part (which is a prefix of the result, `sortedAttrs_neg_prefix`).
    Full intended statement = this one; the hypothesis is on `l1` only (it transfers along the permutation) and
    needs no duplicate-freeness.  The rest of the result (weight 0 and plain attributes) keeps source order and
    is therefore NOT order independent, see `order_dependent_witness`. -/
theorem sort_order_independent (pfx : String) (l1 l2 : List String) (hp : l1.Perm l2)
    (h : NoPlainDirectiveName pfx l1)
    (h1 : ∀ w : Int, w < 0 → (l1.filter (fun n => weight pfx n == (0, w))).length ≤ 1) :
    (sortedAttrs pfx l1).filter (fun n => decide ((weight pfx n).2 < 0)) =
    (sortedAttrs pfx l2).filter (fun n => decide ((weight pfx n).2 < 0)) := by
  have h' : NoPlainDirectiveName pfx l2 := fun n hn => h n (hp.mem_iff.2 hn)
  have e1 : (fun n => decide ((weight pfx n).2 < 0)) = (fun n => decide (rank pfx n < 0)) := by
    funext n; simp only [weight_neg_iff]
  rw [sortedAttrs_eq_rank h, sortedAttrs_eq_rank h', e1, isortR_neg, isortR_neg]
  have key : ∀ j : Int, j < 0 → l1.filter (fun n => rank pfx n == j) = l2.filter (fun n => rank pfx n == j) := by
    intro j hj
    apply perm_short_eq (hp.filter _)
    have e : (fun n => rank pfx n == j) = (fun n => weight pfx n == (0, j)) := by
      funext n
      rw [Bool.eq_iff_iff]
      simp only [beq_iff_eq]
      exact (weight_eq_neg_iff pfx n j hj).symm
    rw [e]; exact h1 j hj
  simp only [classes, Int.reduceNeg, Int.reduceAdd]
  rw [key (-4) (by decide), key (-3) (by decide), key (-2) (by decide), key (-1) (by decide)]

/-- the same in the wording of the property: duplicate-free lists (guaranteed by `Tag.AddAttr`) with at most one
    attribute per negative weight class -/
theorem sort_order_independent' (pfx : String) (l1 l2 : List String) (hp : l1.Perm l2)
    (h : NoPlainDirectiveName pfx l1) (hnd : l1.Nodup)
    (h1 : ∀ x ∈ l1, ∀ y ∈ l1, (weight pfx x).2 < 0 → weight pfx x = weight pfx y → x = y) :
    (sortedAttrs pfx l1).filter (fun n => decide ((weight pfx n).2 < 0)) =
    (sortedAttrs pfx l2).filter (fun n => decide ((weight pfx n).2 < 0)) := by
  apply sort_order_independent pfx l1 l2 hp h
  intro w hw
  have hnd' : (l1.filter (fun n => weight pfx n == (0, w))).Nodup := List.Pairwise.filter _ hnd
  match hm : l1.filter (fun n => weight pfx n == (0, w)), hnd' with
  | [], _ => simp
  | [_], _ => simp
  | a :: b :: r, hnd' =>
    exfalso
    have ha : a ∈ l1.filter (fun n => weight pfx n == (0, w)) := by rw [hm]; simp
    have hb : b ∈ l1.filter (fun n => weight pfx n == (0, w)) := by rw [hm]; simp
    obtain ⟨ha1, ha2⟩ := List.mem_filter.1 ha
    obtain ⟨hb1, hb2⟩ := List.mem_filter.1 hb
    have ea : weight pfx a = (0, w) := by simpa using ha2
    have eb : weight pfx b = (0, w) := by simpa using hb2
    have : a = b := h1 a ha1 b hb1 (by rw [ea]; exact hw) (ea.trans eb.symm)
    have hne := (List.pairwise_cons.1 hnd').1 b (by simp)
    exact hne this

/-- every single class with at most one member is placed independently of the source order -/
theorem sort_class_independent (pfx : String) (l1 l2 : List String) (hp : l1.Perm l2)
    (h : NoPlainDirectiveName pfx l1) (k : Int × Int)
    (h1 : (l1.filter (fun n => weight pfx n == k)).length ≤ 1) :
    (sortedAttrs pfx l1).filter (fun n => weight pfx n == k) = (sortedAttrs pfx l2).filter (fun n => weight pfx n == k) := by
  have h' : NoPlainDirectiveName pfx l2 := fun n hn => h n (hp.mem_iff.2 hn)
  rw [sortedAttrs_stable pfx l1 h, sortedAttrs_stable pfx l2 h']
  exact perm_short_eq (hp.filter _) h1

/-- sorting records by their name and sorting the names commute -/
theorem sortedBy_map {α : Type} (pfx : String) (name : α → String) (l : List α) :
    (sortedBy pfx name l).map name = sortedAttrs pfx (l.map name) := isort_map name (lt pfx) l

/-! ## examples (by evaluation) and non-vacuity -/

/-- every directive kind at once, written in "wrong" order -/
example : sortedAttrs ":" ["class", ":text", ":remove", ":range", "id", ":else", ":if", ":with", ":title", ":raw"] =
    [":with", ":else", ":if", ":range", ":remove", ":text", ":title", ":raw", "class", "id"] := by decide
/-- the hypotheses of the order theorems hold for it -/
example : NoPlainDirectiveName ":"
    ["class", ":text", ":remove", ":range", "id", ":else", ":if", ":with", ":title", ":raw"] := by decide
/-- another prefix (configurable attribute prefix): `:if` is a plain attribute then, `th-if` the directive -/
example : sortedAttrs "th-" ["th-text", ":if", "th-range", "th-if", "if2"] =
    ["th-if", "th-range", "th-text", ":if", "if2"] := by decide
example : NoPlainDirectiveName "th-" ["th-text", ":if", "th-range", "th-if", "if2"] := by decide
/-- empty prefix: every attribute is a directive -/
example : sortedAttrs "" ["class", "remove", "if"] = ["if", "remove", "class"] := by decide
/-- the side condition fails on the cyclic input -/
example : ¬ NoPlainDirectiveName ":" ["if", ":text"] := by decide
/-- two permutations, one attribute per negative class: the hypotheses of `sort_order_independent` hold and the
    negative parts agree (here shown by evaluation as well) -/
example : [":text", "a", ":remove", ":range", ":elif", ":with"].Perm [":with", ":elif", ":range", "a", ":remove", ":text"] := by
  decide
example : ∀ w ∈ [(-4 : Int), -3, -2, -1],
    (([":text", "a", ":remove", ":range", ":elif", ":with"] : List String).filter
      (fun n => weight ":" n == (0, w))).length = 1 := by decide
example : (sortedAttrs ":" [":text", "a", ":remove", ":range", ":elif", ":with"]).filter (fun n => decide ((weight ":" n).2 < 0)) =
    [":with", ":elif", ":range", ":remove"] := by decide
/-- all hypotheses of `sort_order_independent'` (hence of `sort_order_independent`) hold on a concrete pair -/
example :
    (sortedAttrs ":" [":text", "a", ":remove", ":range", ":elif", ":with"]).filter (fun n => decide ((weight ":" n).2 < 0)) =
    (sortedAttrs ":" [":with", ":elif", ":range", "a", ":remove", ":text"]).filter (fun n => decide ((weight ":" n).2 < 0)) :=
  sort_order_independent' ":" _ _ (by decide) (by decide) (by decide) (by decide)
/-- Two condition attributes on one element are the same class: their order is the source order, so the result
    DOES depend on how the attributes were written (and likewise for weight-0 directives). -/
theorem order_dependent_witness :
    sortedAttrs ":" [":if", ":else"] = [":if", ":else"] ∧ sortedAttrs ":" [":else", ":if"] = [":else", ":if"] ∧
    sortedAttrs ":" [":text", ":replace"] = [":text", ":replace"] ∧
    sortedAttrs ":" [":replace", ":text"] = [":replace", ":text"] := by decide

end C05
