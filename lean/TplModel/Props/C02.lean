import TplModel.Basic.Escape
import TplModel.Html.Scan
import TplModel.Proofs.EscapeProofs
/-! # C02 — inserted values are escaped: they round-trip and cannot change the document structure

The renderer inserts values with Go's `html.EscapeString` (`Esc.escape`: `& ' < > "` ↦ `&amp; &#39; &lt; &gt; &#34;`),
between an element's tags (`:text`) and as ` name="` ++ escaped ++ `"` (dynamic attributes).

* Round trip: `unescape_escape`, `escape_injective`, `text_token_roundtrip`, `dq_value_roundtrip`.
* Output alphabet: `escape_safe`, `escape_amp_starts_entity`, `escape_append`.
* The HTML scanner model (`HS.step`, validated against the Go scanner) absorbs an escaped string without leaving its
  state: `text_state_absorbs`, `rawtext_state_absorbs`, `dq_value_absorbs`, `dq_value_closes`,
  `inserted_text_invisible_to_structure`, `inserted_attr_invisible_to_structure`.
* Whole-document form: `text_insert_skeleton_invariant`, `attr_insert_skeleton_invariant`,
  `first_text_insert_skeleton_invariant`: the token sequence with positions, text, attribute values and raw tag text
  erased (`HS.Token.er`; kept: token kinds, tag names, attribute names in order, has-value flags, comment/CDATA bodies,
  and the error if scanning fails) is the same whatever string is inserted.

Helper lemmas live in `TplModel/Proofs/EscapeProofs.lean`. Core-only. -/
namespace C02
open Esc HS

/-! ## Escaping on its own -/

/-- HTML-unescaping the escaped string gives back the original, for every string. -/
theorem unescape_escape : ∀ s : List Char, unescape5 (escape s) = s := Esc.unescape_escape

example : unescape5 (escape "a<b>&'\"c &amp; &#39; &lt;".toList) = "a<b>&'\"c &amp; &#39; &lt;".toList := by decide
example : escape "a<b>&'\"c".toList = "a&lt;b&gt;&amp;&#39;&#34;c".toList := by decide
/-- `unescape5` decodes only the five entities (so it is a left inverse and not the identity, nor a full decoder) -/
example : unescape5 "&amp;amp; &quot; &#x27; &lt".toList = "&amp; &quot; &#x27; &lt".toList := by decide

/-- The escaped string contains none of `< > " '`. -/
theorem escape_safe : ∀ (s : List Char) (c : Char), c ∈ escape s → c ≠ '<' ∧ c ≠ '>' ∧ c ≠ '"' ∧ c ≠ '\'' :=
  Esc.escape_safe

example : ('<' ∈ "a<b>&'\"c".toList) ∧ ('&' ∈ escape "a<b>&'\"c".toList) := by decide

/-- Every `&` of the escaped string starts one of the five entities: for every split `escape s = a ++ '&' :: b`,
    one of `amp;` `#39;` `lt;` `gt;` `#34;` is a prefix of `b`. -/
theorem escape_amp_starts_entity :
    ∀ (s a b : List Char), escape s = a ++ '&' :: b → ∃ t ∈ entityTails, t <+: b := Esc.escape_amp_starts_entity

example : entityTails = ["amp;".toList, "#39;".toList, "lt;".toList, "gt;".toList, "#34;".toList] := by decide
example : escape "x<&".toList = "x&lt;".toList ++ '&' :: "amp;".toList := by decide
example : escape "x<&".toList = "x".toList ++ '&' :: "lt;&amp;".toList := by decide

theorem escape_append (a b : List Char) : escape (a ++ b) = escape a ++ escape b := Esc.escape_append a b

theorem escape_injective : ∀ a b : List Char, escape a = escape b → a = b := fun _ _ h => Esc.escape_injective h

/-! ## The scanner absorbs escaped text -/

/-- configuration and inputs used in the non-vacuity examples below -/
def cfg0 : Cfg := { textTags := ["script".toList, "style".toList] }

/-- a string with all five specials -/
def nasty : List Char := "a<b>&'\"c".toList

/-- projection of a scan result with decidable equality: kinds, raw values, (name, value) of the attributes -/
def view (r : Except Err (List Token)) : List (Kind × List Char × List (List Char × Option (List Char))) :=
  match r with
  | .ok ts => ts.map fun t =>
      (t.kind, t.value, match t.tag with | some tg => tg.attrs.map (fun a => (a.name, a.value)) | none => [])
  | .error _ => []

/-- non-vacuity (text-mode theorems): after `<p>hi ` the scanner is in ordinary text mode -/
example : ∃ s0 l, "<p>hi ".toList.foldlM (step cfg0) initS = .ok s0 ∧ s0.mode = .text l ∧ l.raw = none :=
  ⟨_, _, rfl, rfl, rfl⟩

/-- non-vacuity (raw-text theorems): after `<script>x` the scanner is in raw-text mode with no pending closing tag -/
example : ∃ s0 l, "<script>x".toList.foldlM (step cfg0) initS = .ok s0 ∧ s0.mode = .text l ∧
    l.raw = some "script".toList ∧ l.tagBuf = [] :=
  ⟨_, _, rfl, rfl, rfl, rfl⟩

/-- non-vacuity (attribute theorems): after `<p id=x title="` the scanner is in `.attrValue` with value buffer `"`
    and `title` is not a duplicate -/
example : ∃ s0 l, "<p id=x title=\"".toList.foldlM (step cfg0) initS = .ok s0 ∧ s0.mode = .tag l ∧
    l.st = .attrValue ∧ l.attrValue = ['"'] ∧ l.attrValue.getLast? = some '"' ∧
    l.attrs.any (fun b => b.name == (trimOneSpace l.attrName).reverse) = false :=
  ⟨_, _, rfl, rfl, rfl, rfl, rfl, rfl⟩

/-- non-vacuity (`first_text_insert_skeleton_invariant`): after `<p>` the scanner is between tokens, not raw -/
example : ∃ s0, "<p>".toList.foldlM (step cfg0) initS = .ok s0 ∧ s0.mode = .init ∧ rawTagOf cfg0 s0.toks = none :=
  ⟨_, rfl, rfl, rfl⟩

/-- end to end on a concrete rendered element: one tag with one attribute, one text token, the closing tag; both
    inserted strings arrive escaped and intact -/
example :
    view (scan cfg0 ("<p title=\"".toList ++ escape nasty ++ "\">".toList ++ escape nasty ++ "</p>".toList)) =
      [(.tag, "<p title=\"a&lt;b&gt;&amp;&#39;&#34;c\">".toList,
          [("title".toList, some "\"a&lt;b&gt;&amp;&#39;&#34;c\"".toList)]),
       (.text, "a&lt;b&gt;&amp;&#39;&#34;c".toList, []),
       (.tag, "</p>".toList, [])] := by decide

/-- escaping is what makes the difference: unescaped `<b>` adds a tag token -/
example :
    (view (scan cfg0 ("<p>x".toList ++ "<b>".toList ++ "</p>".toList))).length = 4 ∧
    (view (scan cfg0 ("<p>x".toList ++ escape "<b>".toList ++ "</p>".toList))).length = 3 := by decide

/-- Ordinary text mode absorbs any `<`-free string: same mode, same `start`, `buf` extended by the string
    (reversed), no token emitted (`toks` unchanged), only `pos` advanced. -/
theorem text_state_absorbs (cfg : Cfg) (s : S) (l : TextL) (v : List Char)
    (hm : s.mode = .text l) (hraw : l.raw = none) (hv : '<' ∉ v) :
    v.foldlM (step cfg) s =
      .ok { s with mode := .text { l with buf := v.reverse ++ l.buf }, pos := advanceAll s.pos v } :=
  HS.text_state_absorbs cfg v s l hm hraw hv

/-- … hence any escaped string, whatever `s` contains. -/
theorem text_state_absorbs_escape (cfg : Cfg) (s : S) (l : TextL) (x : List Char)
    (hm : s.mode = .text l) (hraw : l.raw = none) :
    (escape x).foldlM (step cfg) s =
      .ok { s with mode := .text { l with buf := (escape x).reverse ++ l.buf }, pos := advanceAll s.pos (escape x) } :=
  text_state_absorbs cfg s l _ hm hraw (lt_not_mem_escape x)

/-- Raw-text mode (inside `<script>` etc.), not in the middle of a candidate closing tag: likewise; `stop` follows `pos`. -/
theorem rawtext_state_absorbs (cfg : Cfg) (s : S) (l : TextL) (tag v : List Char)
    (hm : s.mode = .text l) (hraw : l.raw = some tag) (htb : l.tagBuf = []) (hv : '<' ∉ v) :
    v.foldlM (step cfg) s =
      .ok { s with mode := .text { l with buf := v.reverse ++ l.buf,
                                          stop := if v.isEmpty then l.stop else advanceAll s.pos v },
                   pos := advanceAll s.pos v } :=
  HS.rawtext_absorbs cfg tag v s l hm hraw htb hv

theorem rawtext_state_absorbs_escape (cfg : Cfg) (s : S) (l : TextL) (tag x : List Char)
    (hm : s.mode = .text l) (hraw : l.raw = some tag) (htb : l.tagBuf = []) :
    (escape x).foldlM (step cfg) s =
      .ok { s with mode := .text { l with buf := (escape x).reverse ++ l.buf,
                                          stop := if (escape x).isEmpty then l.stop else advanceAll s.pos (escape x) },
                   pos := advanceAll s.pos (escape x) } :=
  rawtext_state_absorbs cfg s l tag _ hm hraw htb (lt_not_mem_escape x)

/-- After consuming `escape x` in text mode the scanner state differs from the state before only in `buf` and `pos`
    (mode, `start`, `raw`, the emitted tokens: all unchanged), for every `x`. -/
theorem inserted_text_invisible_to_structure (cfg : Cfg) (s : S) (l : TextL) (x : List Char)
    (hm : s.mode = .text l) (hraw : l.raw = none) :
    ∃ buf' pos', (escape x).foldlM (step cfg) s = .ok { s with mode := .text { l with buf := buf' }, pos := pos' } :=
  ⟨_, _, text_state_absorbs_escape cfg s l x hm hraw⟩

/-- The text token emitted at the next `<` carries the pending text followed by exactly `escape x`; unescaping that
    part gives `x` back. -/
theorem text_token_roundtrip (cfg : Cfg) (s : S) (l : TextL) (x : List Char)
    (hm : s.mode = .text l) (hraw : l.raw = none) :
    (∃ s', (escape x ++ ['<']).foldlM (step cfg) s = .ok s' ∧
        s'.toks = { kind := .text, value := l.buf.reverse ++ escape x, start := l.start,
                    stop := advanceAll s.pos (escape x), tag := none } :: s.toks) ∧
      unescape5 (escape x) = x := by
  refine ⟨?_, Esc.unescape_escape x⟩
  rw [foldlM_step_append, text_state_absorbs_escape cfg s l x hm hraw]
  simp only [Except.bind, List.foldlM, bind, pure, Except.pure]
  rw [step_text_lt cfg _ { l with buf := (escape x).reverse ++ l.buf } rfl hraw]
  exact ⟨_, rfl, by simp⟩

/-! ## The scanner absorbs an escaped attribute value -/

/-- Inside a double-quoted attribute value (state `.attrValue`, value buffer starting with `"`), any string without
    `"` is appended to the value; the scanner stays in that state and emits nothing. -/
theorem dq_value_absorbs (cfg : Cfg) (s : S) (l : TagL) (v : List Char)
    (hm : s.mode = .tag l) (hst : l.st = .attrValue) (hlast : l.attrValue.getLast? = some '"') (hv : '"' ∉ v) :
    v.foldlM (step cfg) s =
      .ok { s with mode := .tag { l with buf := v.reverse ++ l.buf, attrValue := v.reverse ++ l.attrValue,
                                         attrValueEnd := if v.isEmpty then l.attrValueEnd else advanceAll s.pos v },
                   pos := advanceAll s.pos v } :=
  HS.quoted_value_absorbs cfg '"' (by decide) v s l hm hst hlast hv

theorem dq_value_absorbs_escape (cfg : Cfg) (s : S) (l : TagL) (x : List Char)
    (hm : s.mode = .tag l) (hst : l.st = .attrValue) (hlast : l.attrValue.getLast? = some '"') :
    (escape x).foldlM (step cfg) s =
      .ok { s with mode := .tag { l with buf := (escape x).reverse ++ l.buf, attrValue := (escape x).reverse ++ l.attrValue,
                                         attrValueEnd := if (escape x).isEmpty then l.attrValueEnd
                                                         else advanceAll s.pos (escape x) },
                   pos := advanceAll s.pos (escape x) } :=
  dq_value_absorbs cfg s l _ hm hst hlast (dq_not_mem_escape x)

/-- After consuming `escape x` inside a double-quoted value the state differs only in `buf`, `attrValue`,
    `attrValueEnd` and `pos`; the value still starts with the same quote. -/
theorem inserted_attr_invisible_to_structure (cfg : Cfg) (s : S) (l : TagL) (x : List Char)
    (hm : s.mode = .tag l) (hst : l.st = .attrValue) (hlast : l.attrValue.getLast? = some '"') :
    ∃ buf' val' end' pos',
      (escape x).foldlM (step cfg) s =
        .ok { s with mode := .tag { l with buf := buf', attrValue := val', attrValueEnd := end' }, pos := pos' } ∧
      val'.getLast? = some '"' := by
  refine ⟨_, _, _, _, dq_value_absorbs_escape cfg s l x hm hst hlast, ?_⟩
  cases hl : l.attrValue with
  | nil => simp [hl] at hlast
  | cons y ys => rw [hl] at hlast; simp [List.getLast?_append, hlast]

/-- … and the next `"` finishes the attribute with exactly that value (the model keeps the quotes in the value):
    the attribute list gains one entry whose value is the buffered value ++ v ++ `"`; the scanner goes to `.space`.
    (`hnd`: no earlier attribute of this tag has the same name — otherwise the scanner reports `dupAttr`,
    see `HS.stepTag_quoted_close_dup`.) -/
theorem dq_value_closes (cfg : Cfg) (s : S) (l : TagL) (v : List Char)
    (hm : s.mode = .tag l) (hst : l.st = .attrValue) (hlast : l.attrValue.getLast? = some '"') (hv : '"' ∉ v)
    (hnd : l.attrs.any (fun b => b.name == (trimOneSpace l.attrName).reverse) = false) :
    (v ++ ['"']).foldlM (step cfg) s =
      .ok { s with
        mode := .tag { l with
          buf := '"' :: (v.reverse ++ l.buf), st := .space, attrValue := '"' :: (v.reverse ++ l.attrValue),
          attrValueEnd := advanceAll s.pos (v ++ ['"']),
          attrs := { name := (trimOneSpace l.attrName).reverse, nameStart := l.attrNameStart, nameEnd := l.attrNameEnd,
                     value := some (l.attrValue.reverse ++ v ++ ['"']), valueStart := l.attrValueStart,
                     valueEnd := advanceAll s.pos (v ++ ['"']) } :: l.attrs },
        pos := advanceAll s.pos (v ++ ['"']) } :=
  HS.quoted_value_closes cfg '"' (by decide) v s l hm hst hlast hv hnd

/-- The renderer's ` name="` ++ escape x ++ `"`: right after the opening quote (value buffer = `"`), scanning
    `escape x ++ "\""` records the attribute value `"` ++ escape x ++ `"`, and unescaping the part between the
    quotes gives `x` back. -/
theorem dq_value_roundtrip (cfg : Cfg) (s : S) (l : TagL) (x : List Char)
    (hm : s.mode = .tag l) (hst : l.st = .attrValue) (hval : l.attrValue = ['"'])
    (hnd : l.attrs.any (fun b => b.name == (trimOneSpace l.attrName).reverse) = false) :
    (∃ s' l' a, (escape x ++ ['"']).foldlM (step cfg) s = .ok s' ∧ s'.mode = .tag l' ∧ l'.st = .space ∧
        l'.attrs = a :: l.attrs ∧ a.name = (trimOneSpace l.attrName).reverse ∧
        a.value = some ('"' :: escape x ++ ['"']) ∧ s'.toks = s.toks) ∧
      unescape5 (escape x) = x := by
  refine ⟨?_, Esc.unescape_escape x⟩
  have h := dq_value_closes cfg s l (escape x) hm hst (by simp [hval]) (dq_not_mem_escape x) hnd
  exact ⟨_, _, _, h, rfl, rfl, rfl, rfl, by simp [hval], rfl⟩

/-! ## Whole documents: the structure does not depend on the inserted strings -/

/-- what is left of a scan result after erasing positions, text, attribute values and raw tag text -/
def skeleton (cfg : Cfg) (doc : List Char) : Except Err (List Token) := erT (scan cfg doc)

/-- `:text` into an element that already has some text before the insertion point (scanner in ordinary text mode
    after `pre`): the skeleton of `pre ++ v ++ post` is the same for all `<`-free `v` — in particular for all
    `escape a`, and it equals the skeleton of `pre ++ post`. -/
theorem text_insert_skeleton_invariant (cfg : Cfg) (pre post : List Char) (s0 : S) (l : TextL)
    (hpre : pre.foldlM (step cfg) initS = .ok s0) (hm : s0.mode = .text l) (hraw : l.raw = none)
    (a : List Char) :
    skeleton cfg (pre ++ escape a ++ post) = skeleton cfg (pre ++ post) := by
  unfold skeleton
  rw [scan_eq_runFrom, scan_eq_runFrom, List.append_assoc, runFrom_append cfg pre _ _ _ hpre,
    runFrom_append cfg pre _ _ _ hpre,
    runFrom_append cfg (escape a) post _ _ (text_state_absorbs_escape cfg s0 l a hm hraw)]
  exact runFrom_congr cfg post _ _ (text_absorb_er s0 l hm hraw _ _)

example : skeleton cfg0 ("<p>hi ".toList ++ escape nasty ++ "</p>".toList) =
    skeleton cfg0 ("<p>hi ".toList ++ "</p>".toList) :=
  text_insert_skeleton_invariant cfg0 _ _ _ _ rfl rfl rfl nasty

/-- `:text` as the first thing after a tag (scanner between tokens, not in a raw-text element): all NON-EMPTY
    insertions give the same skeleton. (An empty insertion produces no text token at all, so its skeleton has one
    token fewer; `escape a` is empty only for `a = []`.) -/
theorem first_text_insert_skeleton_invariant (cfg : Cfg) (pre post : List Char) (s0 : S)
    (hpre : pre.foldlM (step cfg) initS = .ok s0) (hm : s0.mode = .init) (hraw : rawTagOf cfg s0.toks = none)
    (a b : List Char) (ha : a ≠ []) (hb : b ≠ []) :
    skeleton cfg (pre ++ escape a ++ post) = skeleton cfg (pre ++ escape b ++ post) := by
  have key : ∀ x : List Char, x ≠ [] → ∃ s1 l1, (escape x).foldlM (step cfg) s0 = .ok s1 ∧
      s1.er = ({ s0 with mode := .text { buf := [], start := s0.pos, raw := none, stop := ⟨0, 0⟩, tagBuf := [],
                                         nameBuf := [] } } : S).er ∧ s1.mode = .text l1 := by
    intro x hx
    cases hex : escape x with
    | nil =>
      cases x with
      | nil => exact absurd rfl hx
      | cons c cs =>
        rcases escChar_cases c with ⟨_, e⟩ | ⟨_, e⟩ | ⟨_, e⟩ | ⟨_, e⟩ | ⟨_, e⟩ | ⟨_, _, _, _, _, e⟩ <;>
          simp [escape, e] at hex
    | cons c v =>
      have hv : '<' ∉ c :: v := hex ▸ lt_not_mem_escape x
      exact ⟨_, _, init_absorbs cfg c v s0 hm hraw hv, by simp [S.er, Mode.er, TextL.er], rfl⟩
  obtain ⟨sa, _, hfa, hea, _⟩ := key a ha
  obtain ⟨sb, _, hfb, heb, _⟩ := key b hb
  unfold skeleton
  rw [scan_eq_runFrom, scan_eq_runFrom, List.append_assoc, List.append_assoc, runFrom_append cfg pre _ _ _ hpre,
    runFrom_append cfg pre _ _ _ hpre, runFrom_append cfg _ post _ _ hfa, runFrom_append cfg _ post _ _ hfb]
  exact runFrom_congr cfg post _ _ (hea.trans heb.symm)

example : skeleton cfg0 ("<p>".toList ++ escape nasty ++ "</p>".toList) =
    skeleton cfg0 ("<p>".toList ++ escape "x".toList ++ "</p>".toList) :=
  first_text_insert_skeleton_invariant cfg0 _ _ _ rfl rfl rfl nasty "x".toList (by decide) (by decide)

/-- Dynamic attribute: after `pre` the scanner is inside a double-quoted attribute value (e.g. `pre` ends with
    ` name="`). The skeleton of `pre ++ v ++ post` is the same for all `"`-free `v` — in particular for all
    `escape a`, and it equals the skeleton of `pre ++ post`: same tags, same attribute names, same errors. -/
theorem attr_insert_skeleton_invariant (cfg : Cfg) (pre post : List Char) (s0 : S) (l : TagL)
    (hpre : pre.foldlM (step cfg) initS = .ok s0) (hm : s0.mode = .tag l) (hst : l.st = .attrValue)
    (hlast : l.attrValue.getLast? = some '"') (a : List Char) :
    skeleton cfg (pre ++ escape a ++ post) = skeleton cfg (pre ++ post) := by
  unfold skeleton
  rw [scan_eq_runFrom, scan_eq_runFrom, List.append_assoc, runFrom_append cfg pre _ _ _ hpre,
    runFrom_append cfg pre _ _ _ hpre,
    runFrom_append cfg (escape a) post _ _ (dq_value_absorbs_escape cfg s0 l a hm hst hlast)]
  exact runFrom_congr cfg post _ _ (quoted_absorb_er s0 l hm '"' hlast _ _ _)

example : skeleton cfg0 ("<p id=x title=\"".toList ++ escape nasty ++ "\">t</p>".toList) =
    skeleton cfg0 ("<p id=x title=\"".toList ++ "\">t</p>".toList) :=
  attr_insert_skeleton_invariant cfg0 _ _ _ _ rfl rfl rfl rfl nasty

end C02
