import TplModel.Generated.Facts
import TplModel.Html.Scan
/-! # C17 — facts re-extracted from html/scan_base.go on every run

OBLIGATIONS: C17F.tab_is_four_columns, C17F.tab_unread_gives_back_what_it_took, C17F.model_tab_matches_code

"Every … is reported with the line and column at which it starts and ends (tab = 4 columns) … consecutive tokens abut."
`Facts.tabAdvance` / `Facts.tabUnread` are the column deltas written in `BaseScanner.NextRune` and `BaseScanner.UnRead`
for a tab (0 when the tab case is no longer there). The position model `HS.Pos.advance` moves 4 columns on a tab. -/
namespace C17F

/-- a tab advances the column by 4 -/
theorem tab_is_four_columns : Facts.tabAdvance = 4 := by decide

/-- un-reading a tab gives back exactly what reading it took (otherwise positions after a pushed-back tab drift) -/
theorem tab_unread_gives_back_what_it_took : Facts.tabAdvance + Facts.tabUnread = 0 := by decide

/-- the model's `Pos.advance` uses the same width as the code -/
theorem model_tab_matches_code (p : HS.Pos) : ((p.advance '\t').col : Int) = p.col + Facts.tabAdvance ∧ (p.advance '\t').line = p.line := by
  constructor
  · simp [HS.Pos.advance, Facts.tabAdvance]
  · simp [HS.Pos.advance]

end C17F
