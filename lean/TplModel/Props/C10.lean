import TplModel.Proofs.C10Proofs
/-! # C10 — an expression string, a `${…}` block and a directive value are interpreted in full or rejected at load

Models (unchanged): `EL.lex` / `EL.parseCode` (`exp/parser.go` `ParseCode`, `GoLexer.g4`) and `CS.scan`
(`html/scan_code.go`, `CodeScanner.GetAllTokens`).  Helper lemmas: `TplModel/Proofs/C10Proofs.lean`.

Part A: `ParseCode` accepts only when the expression consumed every token, apart from at most one trailing
non-`;` `EOS` (newline run / multi-line comment); any other leftover, a `;`, and an unlexable rest are rejected.

Part B: a successful scan of a directive value consists of the opening quote, literals and *closed* `${ … }`
blocks, and the closing quote; the end of input inside a literal, a block or a string is an error; the fuel
of `CS.scan` is never exhausted.

One statement of the task is **false on the model (and on the Go code)** as given: after the closing quote has
been read in state `codeEnd`, `scanQuot` sets `done` and `GetAllTokens` stops, so text *after* the closing quote
is not looked at (`"abc"xyz` succeeds with the tokens of `"abc"`; `""'x` succeeds with three quote tokens).
Such values cannot come out of the HTML scanner (a quoted attribute value ends at the first re-occurrence of
its opening quote), so the theorems about *complete* consumption carry exactly that hypothesis
(`quoteOnlyAtEnd v`); the unconditional versions (`codescan_prefix`, `scan_success_quotes`) and the
counterexamples (`codescan_complete_false`) are given as well. -/
namespace C10
open EL

/-! ## A. parser side -/

/-- `ParseCode` accepts exactly when the expression parser stops at the end of the token list or in front of
    one final `EOS` token that is not `;` (unfolding of the definition) -/
theorem parseCode_accept_iff (s : String) (e : E) :
    parseCode s = .accept e ↔
      ∃ ts, lex s = .ok ts ∧
        ((expr (4 * ts.length + 8) 0 ts = some (e, [])) ∨
         (∃ t, t ≠ ";" ∧ expr (4 * ts.length + 8) 0 ts = some (e, [.eos t]))) := by
  unfold parseCode
  cases hl : lex s with
  | err => simp
  | unsupported => simp
  | ok ts =>
    simp only [LexRes.ok.injEq, exists_eq_left']
    split
    · rename_i e' h1
      simp [h1]
    · rename_i e' t h1
      by_cases ht : t = ";"
      · simp [h1, ht]
      · simp only [ht, if_false, h1]
        simp
        exact fun _ => ht
    · rename_i h1 h2
      constructor
      · intro h; cases h
      · rintro (h | ⟨t, _, h⟩)
        · exact (h1 _ h).elim
        · exact (h2 _ _ h).elim

/-- a lexable text is accepted or rejected (never `unsupported`) -/
theorem parseCode_of_lex_ok {s : String} {ts : List Tok} (hl : lex s = .ok ts) :
    (∃ e, parseCode s = .accept e) ∨ parseCode s = .reject := by
  unfold parseCode
  simp only [hl]
  split
  · exact Or.inl ⟨_, rfl⟩
  · split
    · exact Or.inr rfl
    · exact Or.inl ⟨_, rfl⟩
  · exact Or.inr rfl

/-- Accepted ⇒ the token list of `s` is exactly the run of tokens consumed by the expression (`consumed`)
    followed by nothing or by one non-`;` `EOS`; no token follows, and there is no unlexable rest
    (`.lexerr ∉ ts`). -/
theorem parseCode_consumes_all (s : String) (e : E) (h : parseCode s = .accept e) :
    ∃ ts consumed tail, lex s = .ok ts ∧ ts = consumed ++ tail ∧
      expr (4 * ts.length + 8) 0 ts = some (e, tail) ∧
      (tail = [] ∨ ∃ t, t ≠ ";" ∧ tail = [.eos t]) ∧ Tok.lexerr ∉ ts := by
  obtain ⟨ts, hl, h⟩ := (parseCode_accept_iff s e).1 h
  rcases h with h | ⟨t, ht, h⟩
  · obtain ⟨c, hc, hn⟩ := expr_consumed h
    exact ⟨ts, c, [], hl, hc, h, Or.inl rfl, by rw [hc]; simpa using hn⟩
  · obtain ⟨c, hc, hn⟩ := expr_consumed h
    exact ⟨ts, c, [.eos t], hl, hc, h, Or.inr ⟨t, ht, rfl⟩, by rw [hc]; simpa using hn⟩

/-- Whenever the expression parser (with any fuel) stops in front of a non-empty rest that is not a single
    non-`;` `EOS`, the text is rejected. -/
theorem leftover_rejected {s : String} {ts rest : List Tok} {e : E} {f : Nat}
    (hl : lex s = .ok ts) (he : expr f 0 ts = some (e, rest))
    (hne : rest ≠ []) (hrest : ∀ t, rest = [.eos t] → t = ";") : parseCode s = .reject := by
  rcases parseCode_of_lex_ok hl with ⟨e', ha⟩ | hr
  · exfalso
    obtain ⟨ts', hl', h⟩ := (parseCode_accept_iff s e').1 ha
    rw [hl] at hl'; cases hl'
    have key : ∀ tail, expr (4 * ts.length + 8) 0 ts = some (e', tail) → tail = rest := by
      intro tail h'
      have a := expr_mono he (Nat.le_max_left f (4 * ts.length + 8))
      have b := expr_mono h' (Nat.le_max_right f (4 * ts.length + 8))
      rw [a] at b; cases b; rfl
    rcases h with h | ⟨t, ht, h⟩
    · exact hne (key _ h).symm
    · exact ht (hrest t (key _ h).symm)
  · exact hr

/-- a parse failure is a rejection -/
theorem parse_failure_rejected {s : String} {ts : List Tok}
    (hl : lex s = .ok ts) (he : expr (4 * ts.length + 8) 0 ts = none) : parseCode s = .reject := by
  unfold parseCode; simp only [hl, he]

/-- `e ; …` is rejected, whatever follows the semicolon -/
theorem trailing_semicolon_rejected {s : String} {ts rest : List Tok} {e : E} {f : Nat}
    (hl : lex s = .ok (ts ++ .eos ";" :: rest))
    (he : expr f 0 (ts ++ .eos ";" :: rest) = some (e, .eos ";" :: rest)) : parseCode s = .reject :=
  leftover_rejected hl he (by simp) (by intro t h; cases h; rfl)

/-- the expression grammar never steps over a token-recognition error … -/
theorem expr_keeps_lexerr {f p : Nat} {ts rest : List Tok} {e : E}
    (h : expr f p ts = some (e, rest)) (hm : Tok.lexerr ∈ ts) : Tok.lexerr ∈ rest := by
  obtain ⟨c, hc, hn⟩ := expr_consumed h
  rw [hc, List.mem_append] at hm
  exact hm.resolve_left hn
/-- … and neither do the other four parser functions -/
theorem parser_keeps_lexerr (f : Nat) :
    (∀ p l ts e r, loop f p l ts = some (e, r) → Tok.lexerr ∈ ts → Tok.lexerr ∈ r) ∧
    (∀ ts e r, primary f ts = some (e, r) → Tok.lexerr ∈ ts → Tok.lexerr ∈ r) ∧
    (∀ l ts e r, suffix f l ts = some (e, r) → Tok.lexerr ∈ ts → Tok.lexerr ∈ r) ∧
    (∀ ts acc as b r, args f ts acc = some (as, b, r) → Tok.lexerr ∈ ts → Tok.lexerr ∈ r) := by
  have key : ∀ {ts r : List Tok}, Cons ts r → Tok.lexerr ∈ ts → Tok.lexerr ∈ r := by
    rintro ts r ⟨c, hc, hn⟩ hm
    rw [hc, List.mem_append] at hm
    exact hm.resolve_left hn
  obtain ⟨_, hL, hP, hS, hA⟩ := consumed_all f
  exact ⟨fun p l ts e r h => key (hL p l ts e r h), fun ts e r h => key (hP ts e r h),
    fun l ts e r h => key (hS l ts e r h), fun ts acc as b r h => key (hA ts acc as b r h)⟩

/-- a text with an unlexable rest is rejected -/
theorem lexerr_rejected {s : String} {ts : List Tok} (hl : lex s = .ok ts) (hm : Tok.lexerr ∈ ts) :
    parseCode s = .reject := by
  cases he : expr (4 * ts.length + 8) 0 ts with
  | none => exact parse_failure_rejected hl he
  | some x =>
    obtain ⟨e, rest⟩ := x
    have hr := expr_keeps_lexerr he hm
    refine leftover_rejected hl he (by intro h; rw [h] at hr; cases hr) ?_
    intro t h; rw [h] at hr; simp at hr

/-! ### examples (kernel evaluation; non-vacuity) -/

example : (parseCode "1;2").isReject = true := by decide +kernel
example : (parseCode "a\n+b").isReject = true := by decide +kernel
example : (parseCode "1;").isReject = true := by decide +kernel
example : (parseCode "a)").isReject = true := by decide +kernel
example : (parseCode "a #").isReject = true := by decide +kernel
example : (parseCode "nil;[}'//").isReject = true := by decide +kernel
example : parseCode "a\n" = .accept (.name "a") := by rfl
example : parseCode "a /* x\ny */" = .accept (.name "a") := by rfl
example : parseCode "a // c" = .accept (.name "a") := by rfl
example : (parseCode "f(a, 1)[2:].b\n").isAccept = true := by decide +kernel

/-- `parseCode_consumes_all` / `parseCode_accept_iff`: both shapes of acceptance occur -/
example : lex "a+b" = .ok [.ident "a", .op "+", .ident "b"] ∧
    expr (4 * 3 + 8) 0 [.ident "a", .op "+", .ident "b"] = some (.bin "+" (.name "a") (.name "b"), []) :=
  ⟨by decide +kernel, by rfl⟩
example : lex "a\n" = .ok [.ident "a", .eos "\n"] ∧
    expr (4 * 2 + 8) 0 [.ident "a", .eos "\n"] = some (.name "a", [.eos "\n"]) := ⟨by decide +kernel, by rfl⟩
/-- `trailing_semicolon_rejected`: hypotheses satisfiable (with a small fuel), conclusion as evaluated -/
example : parseCode "1;2" = .reject :=
  trailing_semicolon_rejected (ts := [.int "1"]) (rest := [.int "2"]) (f := 5) (by decide +kernel) (by rfl)
/-- `leftover_rejected`: the rest `)` -/
example : parseCode "a)" = .reject :=
  leftover_rejected (ts := [.ident "a", .op ")"]) (rest := [.op ")"]) (f := 3) (by decide +kernel) (by rfl) (by simp)
    (by intro t h; cases h)
/-- `lexerr_rejected`: `#` is not a token of the expression language -/
example : parseCode "a #" = .reject :=
  lexerr_rejected (ts := [.ident "a", .lexerr]) (by decide +kernel) (by simp)

/-! ## B. code scanner side -/
open CS
open HS (Pos)

/-- the opening character does not occur strictly inside the value (what the HTML scanner guarantees for a
    quoted attribute value: it ends at the first re-occurrence of its opening quote) -/
def quoteOnlyAtEnd : List Char → Bool
  | [] => true
  | q :: t => !(t.dropLast.contains q)

theorem quoteOnlyAtEnd_spec {v : List Char} (h : quoteOnlyAtEnd v = true) {q : Char} {mid rest : List Char}
    (hv : v = q :: (mid ++ q :: rest)) : rest = [] := by
  subst hv
  cases rest with
  | nil => rfl
  | cons r rs =>
    exfalso
    simp only [quoteOnlyAtEnd, Bool.not_eq_true', List.contains_eq_mem, decide_eq_false_iff_not] at h
    apply h
    rw [List.dropLast_append_of_ne_nil (by simp), List.dropLast_cons_of_ne_nil (by simp)]
    simp

/-- General form (every `v`): a successful scan accounts for a *prefix* of `v` (1'), starts with a quote token
    and ends with a quote token (2'), and every `${` token is followed by its code-value and `}` tokens (3). -/
theorem codescan_prefix (start : Pos) (v : List Char) (h : Succ (scan start v)) :
    (∃ rest, v = concat (scan start v) ++ rest) ∧
    (∃ q q' p1 p2 p3, isQuote q = true ∧ isQuote q' = true ∧
      (scan start v).head? = some ⟨.begEnd, start, p1, [q]⟩ ∧
      (scan start v).getLast? = some ⟨.begEnd, p2, p3, [q']⟩ ∧ 2 ≤ (scan start v).length) ∧
    blocksClosed (scan start v) = true := by
  obtain ⟨q, p, new, rest, hq, hs, ht, hv⟩ := scan_shape start v h
  have hne : new ≠ [] := by cases ht <;> simp
  rw [hs]
  refine ⟨⟨rest, by simp [hv]⟩, ?_, by simpa [blocksClosed] using ht.blocksClosed⟩
  have hlen : 2 ≤ (({ kind := .begEnd, start := start, stop := p, value := [q] } : CTok) :: new).length := by
    cases new with
    | nil => exact absurd rfl hne
    | cons a b => simp
  rcases ht.last with ⟨m, a, b, _, h2⟩ | ⟨m, q', a, b, hq', _, h2⟩
  · exact ⟨q, q, p, a, b, hq, hq, rfl, by rw [List.getLast?_cons_of_ne_nil hne]; exact h2, hlen⟩
  · exact ⟨q, q', p, a, b, hq, hq', rfl, by rw [List.getLast?_cons_of_ne_nil hne]; exact h2, hlen⟩

/-- General form: a value can only be scanned successfully if it starts with a quote character and that same
    character occurs again (the closing quote was actually read). -/
theorem scan_success_quotes (start : Pos) (v : List Char) (h : Succ (scan start v)) :
    ∃ q mid rest, isQuote q = true ∧ v = q :: (mid ++ q :: rest) := by
  obtain ⟨q, p, new, rest, hq, _, ht, hv⟩ := scan_shape start v h
  rcases ht.last with ⟨m, _, _, h1, _⟩ | ⟨m, q', _, _, _, h1, _⟩
  · exact ⟨q, m, rest, hq, by rw [hv, h1]; simp⟩
  · exact ⟨q, m, q' :: rest, hq, by rw [hv, h1]; simp⟩

/- Full statement asked for (FALSE on the model and on scan_code.go, see `codescan_complete_false`):
     theorem codescan_complete (start v) (h : Succ (scan start v)) :
       concat (scan start v) = v ∧ (first and last token are `begEnd` quotes with the same character) ∧
       blocksClosed (scan start v)
   What is missing: text after the closing quote is never read.  Proved with the hypothesis that the opening
   character does not occur strictly inside `v`: -/
/-- (1) every rune of the value is accounted for by the tokens, (2) the first and the last token are quote
    tokens with the same character, (3) every `${` is followed by its code-value and `}` tokens. -/
theorem codescan_complete_partial (start : Pos) (v : List Char) (hq : quoteOnlyAtEnd v = true)
    (h : Succ (scan start v)) :
    concat (scan start v) = v ∧
    (∃ q p1 p2 p3, isQuote q = true ∧ (scan start v).head? = some ⟨.begEnd, start, p1, [q]⟩ ∧
      (scan start v).getLast? = some ⟨.begEnd, p2, p3, [q]⟩ ∧ 2 ≤ (scan start v).length) ∧
    blocksClosed (scan start v) = true := by
  obtain ⟨q, p, new, rest, hqq, hs, ht, hv⟩ := scan_shape start v h
  have hgen := codescan_prefix start v h
  have hne : new ≠ [] := by cases ht <;> simp
  rcases ht.last with ⟨m, a, b, h1, h2⟩ | ⟨m, q', a, b, _, h1, _⟩
  · have hr : rest = [] := quoteOnlyAtEnd_spec hq (q := q) (mid := m) (rest := rest) (by rw [hv, h1]; simp)
    subst hr
    refine ⟨by rw [hs, hv]; simp, ?_, hgen.2.2⟩
    obtain ⟨_, _, _, _, _, _, _, _, _, hlen⟩ := hgen.2.1
    rw [hs] at hlen ⊢
    exact ⟨q, p, a, b, hqq, rfl, by rw [List.getLast?_cons_of_ne_nil hne]; exact h2, hlen⟩
  · have hr : q' :: rest = [] :=
      quoteOnlyAtEnd_spec hq (q := q) (mid := m) (rest := q' :: rest) (by rw [hv, h1]; simp)
    cases hr

/-- the unrestricted `codescan_complete` fails: trailing text after the closing quote is not read -/
theorem codescan_complete_false :
    (Succ (scan ⟨1, 1⟩ "\"abc\"xyz".toList) ∧ concat (scan ⟨1, 1⟩ "\"abc\"xyz".toList) = "\"abc\"".toList) ∧
    (Succ (scan ⟨1, 1⟩ "\"\"'x".toList) ∧ concat (scan ⟨1, 1⟩ "\"\"'x".toList) = "\"\"'".toList) := by
  decide +kernel

/- Full statement asked for (FALSE for the same reason: `"abc"xyz`):
     theorem scan_success_ends_with_quote (h : Succ (scan start v)) :
       v ≠ [] ∧ v.getLast? = v.head? ∧ (v.head? = some '"' ∨ v.head? = some '\'')
   General version: `scan_success_quotes`.  With the hypothesis of the HTML scanner: -/
/-- a successfully scanned value is non-empty and its last character equals its first character, which is `"` or `'` -/
theorem scan_success_ends_with_quote_partial (start : Pos) (v : List Char) (hq : quoteOnlyAtEnd v = true)
    (h : Succ (scan start v)) :
    ∃ q body, (q = '"' ∨ q = '\'') ∧ v = q :: (body ++ [q]) := by
  obtain ⟨q, mid, rest, hqq, hv⟩ := scan_success_quotes start v h
  have hr := quoteOnlyAtEnd_spec hq hv
  subst hr
  exact ⟨q, mid, by simpa [isQuote] using hqq, hv⟩

/-- No proper prefix of a value whose opening character occurs only at its end can be scanned successfully:
    a truncated directive value is a load error (it is not rendered as a shorter / empty text). -/
theorem truncated_rejected (start : Pos) (v p : List Char) (hq : quoteOnlyAtEnd v = true)
    (hp : p <+: v) (hne : p ≠ v) : ¬ Succ (scan start p) := by
  intro h
  obtain ⟨q, mid, rest, _, hpv⟩ := scan_success_quotes start p h
  obtain ⟨ext, hext⟩ := hp
  have hr : rest ++ ext = [] :=
    quoteOnlyAtEnd_spec hq (q := q) (mid := mid) (rest := rest ++ ext) (by rw [← hext, hpv]; simp)
  have : ext = [] := (List.append_eq_nil_iff.1 hr).2
  subst this
  exact hne (by simpa using hext)

/-! ### end of input inside a literal, a block or a string is an error -/

theorem scanLiteral_eof (f : Nat) (s : S) (start : Pos) (buf : List Char) :
    scanLiteral (f + 1) s start buf [] = s.fail := by simp [scanLiteral]
theorem scanCode_eof (f : Nat) (s : S) (start : Pos) (buf : List Char) :
    scanCode (f + 1) s start buf [] = s.fail := by simp [scanCode]
theorem scanString_eof (q : Char) (f : Nat) (p : Pos) (acc : List Char) :
    scanString q f p [] acc = none := by cases f <;> simp [scanString]
theorem scanQuot_eof_opening (f : Nat) (s : S) : scanQuot (f + 1) s false [] = s.fail := by simp [scanQuot]
theorem S.fail_last (s : S) : s.fail.getLast? = some errMark := by simp [S.fail]

/-- in the literal part: input without the closing quote character ends in the error marker -/
theorem eof_inside_literal_fails (f : Nat) (s : S) (start : Pos) (buf cs : List Char)
    (hf : cs.length + 1 ≤ f) (hb : s.firstCh ∉ buf) (hc : s.firstCh ∉ cs) :
    (scanLiteral f s start buf cs).getLast? = some errMark := by
  obtain ⟨new, h1, h2 | ⟨rest, ht, hr⟩⟩ := (scan_main f).1 s start buf cs hf
  · rw [h1]; exact (h2.append _).last
  · exfalso
    have := ht.mem
    have h3 : s.firstCh ∈ buf.reverse ++ cs := by rw [hr]; simp [this]
    simp at h3
    exact h3.elim hb hc
/-- inside `${ …`: input without the closing quote character ends in the error marker
    (so does, in particular, every input without an unnested `}`) -/
theorem eof_inside_block_fails (f : Nat) (s : S) (start : Pos) (buf cs : List Char)
    (hf : cs.length + 1 ≤ f) (hb : s.firstCh ∉ buf) (hc : s.firstCh ∉ cs) :
    (scanCode f s start buf cs).getLast? = some errMark := by
  obtain ⟨new, h1, h2 | ⟨rest, _, _, _, _, code, tl, _, ht, hr⟩⟩ := (scan_main f).2 s start buf cs hf
  · rw [h1]; exact (h2.append _).last
  · exfalso
    have := ht.mem
    have h3 : s.firstCh ∈ buf.reverse ++ cs := by rw [hr]; simp [this]
    simp at h3
    exact h3.elim hb hc
/-- inside a string of a block: input without the string's closing quote is an error, with any fuel
    (`scanCode` turns `none` into `s.fail`) -/
theorem eof_inside_string_fails (q : Char) (f : Nat) (p : Pos) (cs acc : List Char) (h : q ∉ cs) :
    scanString q f p cs acc = none := scanString_no_quote q f p cs acc h

/-! ### the fuel is never exhausted -/

/-- The outcome of `CS.scan` does not depend on its fuel `3 * v.length + 3`: every fuel `≥ v.length + 2` gives
    the same token list, i.e. the `0`-fuel branches are not reached (together with `scan_main`: the output is
    either a failure marked by `errMark` or a complete value, never the bare token list of a `0` branch). -/
theorem fuel_sufficient (start : Pos) (v : List Char) (f : Nat) (hf : v.length + 2 ≤ f) :
    scanQuot f ⟨start, ' ', 0, []⟩ false v = scan start v := by
  unfold scan
  cases v with
  | nil =>
    obtain ⟨f', rfl⟩ : ∃ f', f = f' + 1 := ⟨f - 1, by omega⟩
    simp [scanQuot]
  | cons c rest =>
    simp only [List.length_cons] at hf
    obtain ⟨f', rfl⟩ : ∃ f', f = f' + 1 := ⟨f - 1, by omega⟩
    have e : 3 * (rest.length + 1) + 3 = (3 * rest.length + 5) + 1 := by omega
    rw [List.length_cons, e]; simp only [scanQuot]
    split
    · simp only [Bool.false_eq_true, if_false]
      exact (fuel_indep f').1 _ _ _ _ _ (by omega) (by omega)
    · rfl
/-- the same for the three inner functions and for the string skipper (whose fuel is `rest.length + 1`) -/
theorem fuel_sufficient_inner (f g : Nat) (s : S) (start : Pos) (buf cs : List Char)
    (hf : cs.length + 1 ≤ f) (hg : cs.length + 1 ≤ g) :
    scanLiteral f s start buf cs = scanLiteral g s start buf cs ∧
    scanCode f s start buf cs = scanCode g s start buf cs ∧
    scanQuot f s true cs = scanQuot g s true cs ∧
    ∀ q p, scanString q f p cs buf = scanString q g p cs buf := by
  refine ⟨(fuel_indep f).1 g s start buf cs hf hg, (fuel_indep f).2 g s start buf cs hf hg, ?_,
    fun q p => scanString_fuel_indep q f g p cs buf hf hg⟩
  obtain ⟨f', rfl⟩ : ∃ f', f = f' + 1 := ⟨f - 1, by omega⟩
  obtain ⟨g', rfl⟩ : ∃ g', g = g' + 1 := ⟨g - 1, by omega⟩
  simp only [scanQuot_closing]

/-! ### examples (kernel evaluation; non-vacuity) -/

example : ¬ Succ (scan ⟨1, 1⟩ "\"abc${".toList) := by decide +kernel
example : ¬ Succ (scan ⟨1, 1⟩ "\"${a".toList) := by decide +kernel
example : ¬ Succ (scan ⟨1, 1⟩ "\"${'x".toList) := by decide +kernel
example : ¬ Succ (scan ⟨1, 1⟩ "\"abc".toList) := by decide +kernel
example : ¬ Succ (scan ⟨1, 1⟩ "\"${a}".toList) := by decide +kernel
example : ¬ Succ (scan ⟨1, 1⟩ "abc".toList) := by decide +kernel
example : ¬ Succ (scan ⟨1, 1⟩ []) := by decide +kernel
example : Succ (scan ⟨1, 1⟩ "\"abc\"".toList) := by decide +kernel
example : Succ (scan ⟨1, 1⟩ "\"\"".toList) := by decide +kernel
example : Succ (scan ⟨1, 1⟩ "\"${a}\"".toList) := by decide +kernel
example : Succ (scan ⟨1, 1⟩ "\"a${'}'}b\"".toList) := by decide +kernel
example : (scan ⟨1, 1⟩ "\"a${'}'}b\"".toList).map (fun t => (t.kind, String.ofList t.value)) =
    [(.begEnd, "\""), (.literal, "a"), (.codeStart, "${"), (.codeValue, "'}'"), (.codeEnd, "}"), (.literal, "b"),
     (.begEnd, "\"")] := by decide +kernel

/-- `codescan_complete_partial`, `scan_success_ends_with_quote_partial`: hypotheses satisfiable on a value with
    a literal, a block containing a string with `}` and `{`, nested braces, and the other quote character -/
def sample : List Char := "\"a'${ f({x: '}{'}) }b$\"".toList
example : quoteOnlyAtEnd sample = true ∧ Succ (scan ⟨3, 7⟩ sample) := by decide +kernel
example : concat (scan ⟨3, 7⟩ sample) = sample :=
  (codescan_complete_partial ⟨3, 7⟩ sample (by decide +kernel) (by decide +kernel)).1
example : concat (scan ⟨3, 7⟩ sample) = sample ∧ blocksClosed (scan ⟨3, 7⟩ sample) = true := by decide +kernel
/-- `truncated_rejected`: instantiated, and checked independently on every proper prefix of `sample` -/
example : ¬ Succ (scan ⟨3, 7⟩ (sample.take 9)) :=
  truncated_rejected ⟨3, 7⟩ sample _ (by decide +kernel) (List.take_prefix _ _) (by decide +kernel)
example : ∀ n, n < sample.length → ¬ Succ (scan ⟨3, 7⟩ (sample.take n)) := by decide +kernel
/-- the hypothesis `quoteOnlyAtEnd` is necessary for `truncated_rejected` and for completeness -/
example : Succ (scan ⟨1, 1⟩ "\"abc\"xy".toList) ∧ "\"abc\"xy".toList <+: "\"abc\"xyz".toList := by decide +kernel
/-- `eof_inside_*`: hypotheses satisfiable -/
example : (scanCode 9 ⟨⟨1, 1⟩, '"', 0, []⟩ ⟨1, 1⟩ [] "a + {b}".toList).getLast? = some errMark :=
  eof_inside_block_fails _ _ _ _ _ (by decide +kernel) (by decide +kernel) (by decide +kernel)
example : (scanLiteral 9 ⟨⟨1, 1⟩, '"', 0, []⟩ ⟨1, 1⟩ [] "abc $ 'x".toList).getLast? = some errMark :=
  eof_inside_literal_fails _ _ _ _ _ (by decide +kernel) (by decide +kernel) (by decide +kernel)
/-- `fuel_sufficient`: e.g. fuel `|v| + 2` instead of `3|v| + 3` -/
example : scanQuot (sample.length + 2) ⟨⟨3, 7⟩, ' ', 0, []⟩ false sample = scan ⟨3, 7⟩ sample :=
  fuel_sufficient _ _ _ (Nat.le_refl _)

end C10
