import TplModel.Exp.Parse
import TplModel.Html.CodeScan
/-! # C10 — expressions and ${} blocks are consumed whole or rejected at load

Interim obligations (the general theorems `parseCode_consumes_all`, `codescan_complete` are task T17):
the acceptance rule of `EL.parseCode` itself — nothing but ONE non-";" EOS may follow the expression — and kernel-checked
instances of every suffix class of the property. -/
namespace C10

/-- `parseCode` accepts only when the parser consumed every token, except for one trailing EOS that is not ";" -/
theorem parseCode_accept_shape (s : String) (e : EL.E) (h : EL.parseCode s = .accept e) :
    ∃ ts, EL.lex s = .ok ts ∧
      (EL.expr (4 * ts.length + 8) 0 ts = some (e, []) ∨
       ∃ t, t ≠ ";" ∧ EL.expr (4 * ts.length + 8) 0 ts = some (e, [.eos t])) := by
  unfold EL.parseCode at h
  split at h
  · cases h
  · cases h
  · rename_i ts hl
    refine ⟨ts, hl, ?_⟩
    split at h
    · rename_i e' he; cases h; exact Or.inl he
    · rename_i e' t he
      by_cases ht : t = ";"
      · simp [ht] at h
      · simp [ht] at h; cases h; exact Or.inr ⟨t, ht, he⟩
    · cases h

def accepted (s : String) : Bool := match EL.parseCode s with | .accept _ => true | _ => false

theorem rejects_after_semicolon : accepted "1;2" = false ∧ accepted "1;" = false ∧ accepted "a;[}'//" = false := by decide +kernel
theorem rejects_after_newline : accepted "a\n+b" = false ∧ accepted "a\n2" = false ∧ accepted "a\n\"/*" = false := by decide +kernel
theorem rejects_operand_and_bracket : accepted "a b" = false ∧ accepted "a)" = false ∧ accepted "a]" = false ∧ accepted "a}" = false ∧ accepted "a #" = false := by decide +kernel
theorem accepts_insignificant_trailer : accepted "a\n" = true ∧ accepted "a /* x\ny */" = true ∧ accepted "a // c" = true ∧ accepted " a " = true := by decide +kernel

def scanOK (v : String) : Bool :=
  match (CS.scan ⟨1, 1⟩ v.toList).getLast? with
  | some t => !(t.value == "ERR".toList && t.start.line == 0)
  | none => false

theorem truncated_values_rejected :
    scanOK "\"abc${\"" = false ∧ scanOK "\"${a\"" = false ∧ scanOK "\"${'x\"" = false ∧ scanOK "\"abc" = false ∧ scanOK "" = false := by decide +kernel
theorem wellformed_values_accepted :
    scanOK "\"abc\"" = true ∧ scanOK "\"\"" = true ∧ scanOK "\"${a}\"" = true ∧ scanOK "\"a${'}'}b\"" = true ∧ scanOK "'x ${\"{\"} $ y'" = true := by decide +kernel

end C10
