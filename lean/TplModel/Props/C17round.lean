import TplModel.Proofs.ScanRoundTrip
import TplModel.Proofs.ScanPos
/-! # C17, first sentence — "scanning the printed form of any sequence of markup tokens recovers that sequence"

Abstract tokens `HS.RT.Tok` (text | comment | cdata | open name attrs selfClosing | close name; attribute = name and
optional value with quote style bare/'/"), printer `HS.RT.printL` with an explicit layout (any non-empty run of blanks
the scanner accepts — `HS.isSpace` — between the parts of a tag; `HS.RT.print` = single blanks), decidable
well-formedness `HS.RT.WF cfg`.

Main theorems: `HS.RT.scan_printL`, `HS.RT.scan_print` (all well-formed sequences, any length, any layout):
the real scanner `HS.scan` accepts the printed text and reports exactly the written tokens — kinds, tag names,
attribute names, values with quote style and order, text/comment/CDATA contents; in the `forget`/`emb` form also the
raw source text (`value`) of every token.

Positions: `HS.RT.scan_printL_positions` — token `i` starts/ends exactly at the position reached over the printed form
of the first `i` / `i+1` tokens. Rejection: `scan_unterminated`, `scan_eof_in_tag`, `scan_malformed_comment_start`,
`scan_malformed_comment_body`, `scan_dup_attr` (all after an arbitrary well-formed prefix ending in ordinary content).

NOT covered by `WF` (the scanner can represent it, the abstract syntax / printer here cannot): the empty unquoted value
`<p a=>` (only possible as the last attribute directly before `>`), attributes with an empty name (`<p =x>`), close tags with
attributes, `<br/>` without blank (scanned as tag NAME `br/`; here: `open "br/" [] false`), end tags of raw-text elements
written with blanks INSIDE the name (`</scr ipt>` is accepted by the scanner and reported with the name `/script`, the
non-blank characters; the printer never writes blanks inside a name). The end tag of a raw-text element may be written in
ANY letter case (`</SCRIPT >`): it is recovered exactly as written (name `/SCRIPT`); blanks before `>` are layout.

OBLIGATIONS: HS.RT.scan_printL, HS.RT.scan_print, HS.RT.scan_printL_emb, HS.RT.scan_printL_positions,
HS.RT.scan_unterminated, HS.RT.scan_eof_in_tag, HS.RT.scan_malformed_comment_start, HS.RT.scan_malformed_comment_body,
HS.RT.scan_dup_attr -/
namespace HS
namespace RT

/-- Well-formed token sequences: exactly the sequences in the scanner's image that the abstract syntax can name.
    * `wfSeq` — what the scanner can represent, token by token and in context:
      - text: non-empty, no `<`, no two adjacent text tokens;
      - comment body: not starting with `>` or `->`, not containing `<!--`, `-->`, `--!>`, not ending with `<!-`;
      - CDATA body: no `]]>`;
      - tag names: no blank, no `>`, not starting with `!--` / `![CDATA[`;
      - attributes: non-empty names without blank, `>`, `=`; pairwise distinct (exact comparison, as in `Tag.AddAttr`;
        for a self-closing tag the mark `/` counts as a name); quoted values without their own quote; unquoted values
        non-empty, without blank and `>`, not starting with a quote;
      - after the start tag of a raw-text element (`cfg.textTags`, compared lower-cased): optionally ONE text token that
        may contain `<` but no closing tag of the element (`hasClose`), then either the end of input or the end tag
        `close n'` in ANY spelling with `lower n' = lower (open name)` (`closeNameOK`; no blank, `<`, `>` in `n'`);
        the scanner reports the name `"/" ++ n'` exactly as written;
    * `canon` — the abstract syntax is unambiguous: an `open` name does not start with `/` (that is `close`), and a
      non-self-closing tag does not end with a value-less attribute `/` (that is the self-closing mark). -/
def WF (cfg : Cfg) (ts : List Tok) : Bool := wfSeq cfg .normal ts && ts.all canon

/-- Round trip in the scanner's own vocabulary: for every well-formed sequence and every layout the scanner reports
    exactly `embL ts ls` — per token its kind, its source text, tag name and attributes (raw values) in order. -/
theorem scan_printL_emb (cfg : Cfg) (ts : List Tok) (ls : List Lay)
    (hwf : wfSeq cfg .normal ts = true) (hls : laysOK ls = true) :
    ∃ ts', HS.scan cfg (printL ts ls) = .ok ts' ∧ ts'.map forget = embL ts ls :=
  scan_of_ascan (ascan_printL cfg ts ls hwf hls)

/-- **Round trip, arbitrary blanks.** -/
theorem scan_printL (cfg : Cfg) (ts : List Tok) (ls : List Lay) (hwf : WF cfg ts = true) (hls : laysOK ls = true) :
    ∃ ts', HS.scan cfg (printL ts ls) = .ok ts' ∧ ts'.map erase = ts ∧ ts'.map forget = embL ts ls := by
  simp only [WF, Bool.and_eq_true] at hwf
  obtain ⟨ts', h1, h2⟩ := scan_printL_emb cfg ts ls hwf.1 hls
  refine ⟨ts', h1, ?_, h2⟩
  have : ts'.map erase = (ts'.map forget).map eraseA := by simp [erase, Function.comp_def]
  rw [this, h2, map_erase_embL ts ls hwf.2]

/-- **Round trip, canonical printer** (one blank where a blank is needed). -/
theorem scan_print (cfg : Cfg) (ts : List Tok) (hwf : WF cfg ts = true) :
    ∃ ts', HS.scan cfg (print ts) = .ok ts' ∧ ts'.map erase = ts ∧ ts'.map forget = ts.map (fun t => emb t Lay.dflt) := by
  obtain ⟨ts', h1, h2, h3⟩ := scan_printL cfg ts [] hwf rfl
  exact ⟨ts', h1, h2, by rw [h3, embL_nil_lay]⟩


theorem emb_value (t : Tok) (lay : Lay) : (emb t lay).value = printTok t lay := by
  cases t <;> rfl

theorem printL_flatten (ts : List Tok) (ls : List Lay) : printL ts ls = ((embL ts ls).map (·.value)).flatten := by
  induction ts generalizing ls with
  | nil => rfl
  | cons t ts ih => simp [printL, embL, emb_value, ih]

theorem embL_take (ts : List Tok) (ls : List Lay) (i : Nat) : (embL ts ls).take i = embL (ts.take i) ls := by
  induction ts generalizing ls i with
  | nil => simp [embL]
  | cons t ts ih =>
    cases i with
    | zero => simp [embL]
    | succ i => simp [embL, ih]

theorem embL_length (ts : List Tok) (ls : List Lay) : (embL ts ls).length = ts.length := by
  induction ts generalizing ls with
  | nil => rfl
  | cons t ts ih => simp [embL, ih]

/-- **Round trip with positions**: token `i` of the scan result starts at the position reached from 1:1 by
    advancing over the printed form of the first `i` tokens (tab = 4 columns, newline = next line, column 1) and ends at
    the position reached over the first `i + 1` tokens. -/
theorem scan_printL_positions (cfg : Cfg) (ts : List Tok) (ls : List Lay) (hwf : wfSeq cfg .normal ts = true) (hls : laysOK ls = true) :
    ∃ ts', HS.scan cfg (printL ts ls) = .ok ts' ∧ ts'.map forget = embL ts ls ∧ ts'.length = ts.length ∧
      ∀ i (hi : i < ts'.length),
        ts'[i].start = adv ⟨1, 1⟩ (printL (ts.take i) ls) ∧ ts'[i].stop = adv ⟨1, 1⟩ (printL (ts.take (i + 1)) ls) := by
  obtain ⟨ts', h1, h2⟩ := scan_printL_emb cfg ts ls hwf hls
  have hlen : ts'.length = ts.length := by
    have := congrArg List.length h2
    simpa [embL_length] using this
  have hval : ∀ k, ((ts'.take k).map (·.value)).flatten = printL (ts.take k) ls := by
    intro k
    rw [printL_flatten, ← embL_take, ← h2, ← List.map_take]
    simp [forget, Function.comp_def]
  refine ⟨ts', h1, h2, hlen, fun i hi => ?_⟩
  have hs := (token_start_exact cfg _ ts' h1 i hi).2
  rw [hval i] at hs
  refine ⟨hs, ?_⟩
  have he := positions_exact cfg _ ts' h1 ts'[i] (List.getElem_mem hi)
  have : printL (ts.take (i + 1)) ls = printL (ts.take i) ls ++ ts'[i].value := by
    have ht : ts'.take (i + 1) = ts'.take i ++ [ts'[i]] := by
      rw [List.take_add_one]; simp [List.getElem?_eq_getElem hi]
    rw [← hval (i + 1), ← hval i, ht]
    simp only [List.map_append, List.flatten_append, List.map_cons, List.map_nil, List.flatten_cons, List.flatten_nil, List.append_nil]
  rw [this, adv_append]
  show ts'[i].stop = List.foldl Pos.advance (List.foldl Pos.advance ⟨1, 1⟩ (printL (List.take i ts) ls)) ts'[i].value
  rw [← hs]
  exact he


/-! ## the error clauses of the property -/

/-- **Unterminated tag.** After any well-formed token sequence (ending in ordinary content), a tag that is cut off after
    its name and any number of complete attributes is rejected with `ErrUnexpectedEOF`. -/
theorem scan_unterminated (cfg : Cfg) (ts : List Tok) (ls : List Lay) (hwf : wfSeq cfg .normal ts = true) (hls : laysOK ls = true)
    (hend : ordinaryEnd cfg ts = true) (name : List Char) (attrs : List Attr) (gs : List Gap)
    (hok : tagOK name attrs false = true) (hgs : gs.all gapOK = true) :
    HS.scan cfg (printL ts ls ++ '<' :: (name ++ printAttrs attrs gs)) = .error .eofInTag :=
  scan_of_ascan_err (ascan_unterminated cfg ts ls hwf hls hend name attrs gs hok hgs)

/-- whenever the input ends while the scanner is inside `<…` (tag, comment, CDATA section) the scan fails -/
theorem scan_eof_in_tag (cfg : Cfg) (cs : List Char) (s : S) (l : TagL)
    (h : cs.foldlM (step cfg) { mode := .init, pos := ⟨1, 1⟩, toks := [] } = .ok s) (hm : s.mode = .tag l) :
    HS.scan cfg cs = .error .eofInTag := by
  simp [scan, h, bind, Except.bind, finish, hm]

/-- **Malformed comment (start).** `<!-->` and `<!--->` are rejected, whatever follows. -/
theorem scan_malformed_comment_start (cfg : Cfg) (ts : List Tok) (ls : List Lay) (hwf : wfSeq cfg .normal ts = true)
    (hls : laysOK ls = true) (hend : ordinaryEnd cfg ts = true) (rest : List Char) :
    HS.scan cfg (printL ts ls ++ (['<','!','-','-','>'] ++ rest)) = .error .comment ∧
    HS.scan cfg (printL ts ls ++ (['<','!','-','-','-','>'] ++ rest)) = .error .comment :=
  ⟨scan_of_ascan_err (ascan_malformed_comment_start cfg ts ls hwf hls hend rest).1,
   scan_of_ascan_err (ascan_malformed_comment_start cfg ts ls hwf hls hend rest).2⟩

/-- **Malformed comment (text).** A comment whose text contains `<!--` or `--!>` or ends with `<!-` is rejected. -/
theorem scan_malformed_comment_body (cfg : Cfg) (ts : List Tok) (ls : List Lay) (hwf : wfSeq cfg .normal ts = true)
    (hls : laysOK ls = true) (hend : ordinaryEnd cfg ts = true) (b rest : List Char)
    (h1 : (['>'] : List Char).isPrefixOf b = false) (h2 : (['-','>'] : List Char).isPrefixOf b = false)
    (h4 : contains ['-','-','>'] b = false)
    (hbad : contains ['<','!','-','-'] b = true ∨ contains ['-','-','!','>'] b = true ∨
      (['<','!','-'] : List Char).isSuffixOf b = true) :
    HS.scan cfg (printL ts ls ++ (['<','!','-','-'] ++ b ++ ['-','-','>'] ++ rest)) = .error .comment :=
  scan_of_ascan_err (ascan_malformed_comment_body cfg ts ls hwf hls hend b rest h1 h2 h4 hbad)

/-- **Duplicate attribute.** A tag that repeats an attribute name (any value form of the repeated attribute:
    none, unquoted, quoted) is rejected. -/
theorem scan_dup_attr (cfg : Cfg) (ts : List Tok) (ls : List Lay) (hwf : wfSeq cfg .normal ts = true) (hls : laysOK ls = true)
    (hend : ordinaryEnd cfg ts = true) (name : List Char) (attrs : List Attr) (gs : List Gap)
    (hok : tagOK name attrs false = true) (hgs : gs.all gapOK = true)
    (a : Attr) (g : Gap) (ha : attrOK a = true) (hg : gapOK g = true)
    (hdup : (attrs.map (·.name)).contains a.name = true) (fin : List Char) (hfin : blanks fin = true) (rest : List Char) :
    HS.scan cfg (printL ts ls ++ '<' :: (name ++ printAttrs attrs gs ++ printAttr a g ++ fin ++ ['>'] ++ rest)) = .error .dupAttr :=
  scan_of_ascan_err (ascan_dup_attr cfg ts ls hwf hls hend name attrs gs hok hgs a g ha hg hdup fin hfin rest)

/-! ## non-vacuity -/

def exCfg : Cfg := ⟨["script".toList, "style".toList]⟩

/-- a mixed sequence: attribute with empty quoted value, value-less attribute, unquoted value containing `/`, quoted value
    containing `>` and the other quote, self-closing tags, raw-text element (upper-case start tag) whose text contains `<b`,
    `</scr` and `</script x` and whose end tag is written `</scRIPT>`, CDATA containing `>` and ending in `]]`, comment containing `--`, empty raw-text element -/
def exTs : List Tok :=
  [ .open "div".toList [⟨"id".toList, some (.dq, [])⟩, ⟨"hidden".toList, none⟩, ⟨"x".toList, some (.bare, "a/b".toList)⟩,
                         ⟨"t".toList, some (.sq, "a>\"b".toList)⟩] false,
    .text "hi\n\tthere ".toList,
    .open "br".toList [] true,
    .open "img".toList [⟨"src".toList, some (.dq, "a b".toList)⟩] true,
    .open "Script".toList [⟨"defer".toList, none⟩] false,
    .text "if (a<b && c>d) {} </scr <b </script x".toList,
    .close "scRIPT".toList,
    .cdata "a>b]]".toList,
    .comment " c -- d ".toList,
    .open "style".toList [] false,
    .close "style".toList,
    .close "div".toList ]

/-- the hypothesis of `scan_print` holds for it -/
example : WF exCfg exTs = true := by decide +kernel

/-- and the conclusion, computed: `print exTs` =
    `<div id="" hidden x=a/b t='a>"b'>hi⏎⇥there <br /><img src="a b" /><Script defer>if (a<b && c>d) {} </scr <b </script x</scRIPT><![CDATA[a>b]]]]><!-- c -- d --><style></style></div>` -/
example : (match HS.scan exCfg (print exTs) with
    | .ok r => r.map erase == exTs && r.length == 12
    | .error _ => false) = true := by decide +kernel

/-- a wide layout: tabs, newlines, no-break space, several blanks -/
def exLay : List Lay :=
  [⟨[⟨"\n  ".toList, " ".toList, "\t".toList⟩, ⟨"  ".toList, [], []⟩, ⟨[' '], ['\u00a0'], []⟩], [' '], "\n".toList⟩,
   Lay.dflt, ⟨[], "\t ".toList, [' ']⟩]

example : laysOK exLay = true ∧ WF exCfg exTs = true := by decide +kernel
example : (match HS.scan exCfg (printL exTs exLay) with
    | .ok r => r.map erase == exTs
    | .error _ => false) = true := by decide +kernel

/-- hypotheses of the rejection theorems are satisfiable: after `<p>x`, the tag `<a href="u" href='v'>` -/
example : wfSeq exCfg .normal [.open ['p'] [] false, .text ['x']] = true ∧ ordinaryEnd exCfg [.open ['p'] [] false, .text ['x']] = true ∧
    tagOK ['a'] [⟨"href".toList, some (.dq, ['u'])⟩] false = true ∧ attrOK ⟨"href".toList, some (.sq, ['v'])⟩ = true := by
  decide +kernel

/-! ## `WF` is needed: non-well-formed sequences do not round-trip -/

private def rt (ts : List Tok) : Option (List Tok) :=
  match HS.scan exCfg (print ts) with
  | .ok r => some (r.map erase)
  | .error _ => none

/-- text containing `<` -/
example : WF exCfg [.text "a<b".toList] = false ∧ rt [.text "a<b".toList] = none := by decide +kernel
/-- two adjacent texts are scanned as one -/
example : WF exCfg [.text ['a'], .text ['b']] = false ∧ rt [.text ['a'], .text ['b']] = some [.text ['a', 'b']] := by decide +kernel
/-- comment bodies the scanner rejects -/
example : WF exCfg [.comment ['>']] = false ∧ rt [.comment ['>']] = none := by decide +kernel
example : WF exCfg [.comment "a<!--b".toList] = false ∧ rt [.comment "a<!--b".toList] = none := by decide +kernel
example : WF exCfg [.comment "a--!>b".toList] = false ∧ rt [.comment "a--!>b".toList] = none := by decide +kernel
/-- `--` inside a comment is accepted by this scanner -/
example : WF exCfg [.comment "a--b".toList] = true := by decide +kernel
/-- CDATA containing the terminator ends early -/
example : WF exCfg [.cdata "a]]>b".toList] = false ∧
    rt [.cdata "a]]>b".toList] = some [.cdata ['a'], .text "b]]>".toList] := by decide +kernel
/-- duplicate attribute, value containing its own quote, unquoted value with a blank -/
example : WF exCfg [.open ['p'] [⟨['a'], none⟩, ⟨['a'], none⟩] false] = false ∧
    rt [.open ['p'] [⟨['a'], none⟩, ⟨['a'], none⟩] false] = none := by decide +kernel
example : WF exCfg [.open ['p'] [⟨['a'], some (.dq, "x\"y".toList)⟩] false] = false ∧
    rt [.open ['p'] [⟨['a'], some (.dq, "x\"y".toList)⟩] false] ≠ some [.open ['p'] [⟨['a'], some (.dq, "x\"y".toList)⟩] false] := by
  decide +kernel
example : WF exCfg [.open ['p'] [⟨['a'], some (.bare, "x y".toList)⟩] false] = false ∧
    rt [.open ['p'] [⟨['a'], some (.bare, "x y".toList)⟩] false] =
      some [.open ['p'] [⟨['a'], some (.bare, ['x'])⟩, ⟨['y'], none⟩] false] := by decide +kernel
/-- an unquoted value directly before the self-closing mark swallows nothing: the printer always puts a blank before `/` -/
example : rt [.open ['p'] [⟨['a'], some (.bare, ['x'])⟩] true] = some [.open ['p'] [⟨['a'], some (.bare, ['x'])⟩] true] := by
  decide +kernel
/-- raw-text element: ordinary tags after the start tag are text; the text may not contain the closing tag -/
example : WF exCfg [.open "script".toList [] false, .open ['b'] [] false] = false ∧
    rt [.open "script".toList [] false, .open ['b'] [] false] = some [.open "script".toList [] false, .text "<b>".toList] := by
  decide +kernel
example : WF exCfg [.open "script".toList [] false, .text "a</script >b".toList, .close "script".toList] = false ∧
    rt [.open "script".toList [] false, .text "a</script >b".toList, .close "script".toList] =
      some [.open "script".toList [] false, .text ['a'], .close "script".toList, .text ['b'], .close "script".toList] := by
  decide +kernel
/-- the end tag of a raw-text element is recovered in the letter case in which it was written -/
example : WF exCfg [.open "Script".toList [] false, .close "Script".toList] = true ∧
    rt [.open "Script".toList [] false, .close "Script".toList] = some [.open "Script".toList [] false, .close "Script".toList] ∧
    WF exCfg [.open "script".toList [] false, .text ['x'], .close "SCRIPT".toList] = true ∧
    rt [.open "script".toList [] false, .text ['x'], .close "SCRIPT".toList] =
      some [.open "script".toList [] false, .text ['x'], .close "SCRIPT".toList] := by
  decide +kernel
/-- in the scanner's own vocabulary: `</Script >` has the tag name `/Script` and the source text `</Script >` -/
example : (HS.scan exCfg "<script></Script >".toList).toOption.map (List.map forget) =
    some [⟨.tag, "<script>".toList, some ("script".toList, [])⟩, ⟨.tag, "</Script >".toList, some ("/Script".toList, [])⟩] := by
  decide +kernel
/-- an end tag of a different element does not close the raw-text element (not `WF`; it is scanned as text) -/
example : WF exCfg [.open "script".toList [] false, .close "style".toList] = false ∧
    rt [.open "script".toList [] false, .close "style".toList] = some [.open "script".toList [] false, .text "</style>".toList] := by
  decide +kernel
/-- blanks INSIDE the name of the end tag are not `WF`: the scanner accepts `</scr ipt>` and reports the non-blank characters -/
example : WF exCfg [.open "script".toList [] false, .close "scr ipt".toList] = false ∧
    rt [.open "script".toList [] false, .close "scr ipt".toList] = some [.open "script".toList [] false, .close "script".toList] := by
  decide +kernel
/-- ambiguity of the abstract syntax excluded by `canon` -/
example : WF exCfg [.open "/p".toList [] false] = false ∧ rt [.open "/p".toList [] false] = some [.close ['p']] := by decide +kernel
example : WF exCfg [.open ['p'] [⟨['/'], none⟩] false] = false ∧
    rt [.open ['p'] [⟨['/'], none⟩] false] = some [.open ['p'] [] true] := by decide +kernel
/-- the three error clauses on concrete inputs (real scanner) -/
example : (match HS.scan exCfg "<p a=1 a=2>".toList with | .error .dupAttr => true | _ => false) = true := by decide +kernel
example : (match HS.scan exCfg "<p a=\"x".toList with | .error .eofInTag => true | _ => false) = true := by decide +kernel
example : (match HS.scan exCfg "<!-->x-->".toList with | .error .comment => true | _ => false) = true := by decide +kernel

end RT
end HS
