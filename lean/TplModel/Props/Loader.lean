import TplModel.Proofs.LoaderProofs
import TplModel.Props.C05refine
import TplModel.Props.RenderProps
/-! # The loader establishes the hypotheses of the refinement theorem; end-to-end C01

`EN.buildTree` (ParseTokens), `EN.annotate`, `EN.addDefined` (addDefinedTpl), `EN.addFile` (tplManager.Add) and
`EN.loadFiles` are total structural functions (TplModel/Html/Engine.lean).  This file proves, for ALL inputs:

* `loaded_uniq`, `loaded_sorted` — every tree the loader produces (file roots and registered fragments) has pairwise
  distinct node ids and attributes in the documented order;
* `addFile_tplOK`, `loaded_manager_ok`, `execute_refines_loaded` — hence every loaded manager satisfies the hypotheses
  `Uniq`, `Sorted`, `TplOK` of `RN.exec_refines_ref` / `RN.execute_refines` (until now only checked at run time by the
  driver, `Ops.hypOK`), and the refinement holds unconditionally for loaded managers;
* `buildTree_preorder` — the tree builder neither drops, duplicates nor reorders a token;
* `render_identity` — C01 end to end: scanning, tree building and rendering a directive-free document reproduces the
  source token by token; the only difference is that start tags are re-printed as `tokOut` (name and attributes
  verbatim, in source order, separated by single blanks). -/
namespace EN
open RN (CAttr Part NodeD Node NK)

/-! ## 1. unique ids -/

/-- **loaded_uniq.** For every configuration, file index, token list and expression table: if `buildTree` succeeds, the
    annotated tree has pairwise distinct node ids, and so has every fragment root that `addDefined` registers from it
    (whatever the evaluation context and the registry it is added to). -/
theorem loaded_uniq (cfg : Cfg) (fileIdx : Nat) (toks : List HS.Token) (tbl tbl' : Tbl) (root : Node)
    (h : (buildTree cfg fileIdx toks).run tbl = (.ok root, tbl')) :
    (RN.ids (annotate root)).Nodup ∧
    ∀ (cx : Ctx) (tpls tpls' : List (String × Node)), addDefined cfg cx (annotate root) tpls = .ok tpls' →
      ∀ p ∈ tpls', p ∈ tpls ∨ (RN.ids p.2).Nodup := by
  have hb : buildTreeS cfg fileIdx toks tbl = (.ok root, tbl') := h
  obtain ⟨h0, h1, h2⟩ := buildTreeS_ids hb
  obtain ⟨a0, a1, a2⟩ := annotate_parts h0 h1 h2
  refine ⟨nodup_of_parts a0 a1 a2, ?_⟩
  intro cx tpls tpls' hadd p hp
  have hkind : (annotate root).d.kind = .root := by
    rw [annotate_d]; obtain ⟨items, _, _, rfl⟩ := buildTreeS_ok hb; rfl
  rcases addDefined_root_sub cfg cx _ hkind tpls tpls' hadd p hp with hp | hfrag
  · exact Or.inl hp
  · obtain ⟨ks, hks, hsub⟩ := hfrag
    right
    have hids : (RN.idsL ks).Sublist (RN.idsL (annotate root).kids) := by
      rw [idsL_flat, idsL_flat]; exact hsub.filterMap _
    rw [hks]
    simp only [RN.ids, rootD]
    exact List.nodup_cons.mpr ⟨fun h0 => a2 (hids.subset h0), hids.nodup a1⟩

/-! ## 2. sorted attributes -/

/-- **loaded_sorted.** The same trees satisfy `RN.Sorted` (the hypothesis of `RN.exec_refines_ref`), provided no tag
    token carries two attributes of the same name — which holds for every token list the scanner produces
    (`HS.attr_names_nodup`; the Go scanner rejects duplicates in `Tag.AddAttr`). Without that proviso two `with`
    attributes on one tag would violate the "at most one `with`" clause of `OrderOK`. -/
theorem loaded_sorted (cfg : Cfg) (fileIdx : Nat) (toks : List HS.Token) (tbl tbl' : Tbl) (root : Node)
    (hnd : TokNodup toks) (h : (buildTree cfg fileIdx toks).run tbl = (.ok root, tbl')) :
    RN.Sorted (rcfgOf cfg) (annotate root) ∧
    ∀ (cx : Ctx) (tpls tpls' : List (String × Node)), addDefined cfg cx (annotate root) tpls = .ok tpls' →
      ∀ p ∈ tpls', p ∈ tpls ∨ RN.Sorted (rcfgOf cfg) p.2 := by
  have hb : buildTreeS cfg fileIdx toks tbl = (.ok root, tbl') := h
  have hs : RN.Sorted (rcfgOf cfg) (annotate root) := (annotate_sorted _ _).mpr (buildTreeS_sorted hb hnd)
  obtain ⟨h0, h1, h2⟩ := buildTreeS_ids hb
  obtain ⟨a0, a1, a2⟩ := annotate_parts h0 h1 h2
  refine ⟨hs, ?_⟩
  intro cx tpls tpls' hadd p hp
  have hkind : (annotate root).d.kind = .root := by
    rw [annotate_d]; obtain ⟨items, _, _, rfl⟩ := buildTreeS_ok hb; rfl
  rcases addDefined_root_sub cfg cx _ hkind tpls tpls' hadd p hp with hp | hfrag
  · exact Or.inl hp
  · exact Or.inr (frag_ok a1 a2 hs hfrag).2

/-- the proviso of `loaded_sorted` holds for everything the scanner produces -/
theorem scanned_tokNodup (hcfg : HS.Cfg) (src : List Char) (toks : List HS.Token) (h : HS.scan hcfg src = .ok toks) :
    TokNodup toks := HS.attr_names_nodup hcfg src toks h

/-! ## 3. the registry invariant -/

/-- **addFile_tplOK.** `tplManager.Add` preserves "every registered template has unique ids and sorted attributes". -/
theorem addFile_tplOK (cfg : Cfg) (fns : List (String × EV.FnSpec)) (idx : Nat) (name src : String) (m m' : Mgr)
    (hinv : TplInv cfg m.templates) (h : addFile cfg fns idx name src m = .ok m') : TplInv cfg m'.templates := by
  obtain ⟨toks, root0, tbl', hscan, hb, hadd, _, _⟩ := addFile_ok h
  have hnd := scanned_tokNodup _ _ _ hscan
  obtain ⟨u1, u2⟩ := loaded_uniq cfg idx toks m.cx.exprs tbl' root0 hb
  obtain ⟨s1, s2⟩ := loaded_sorted cfg idx toks m.cx.exprs tbl' root0 hnd hb
  intro p hp
  have hold : ∀ q ∈ m.templates ++ [(name, annotate root0)], TreeOK cfg q.2 := by
    intro q hq
    rcases List.mem_append.mp hq with hq | hq
    · exact hinv q hq
    · simp only [List.mem_singleton] at hq; subst hq; exact ⟨u1, s1⟩
  refine ⟨?_, ?_⟩
  · rcases u2 _ _ _ hadd p hp with hp' | hp'
    · exact (hold p hp').1
    · exact hp'
  · rcases s2 _ _ _ hadd p hp with hp' | hp'
    · exact (hold p hp').2
    · exact hp'

theorem addFile_cfg {cfg : Cfg} {fns : List (String × EV.FnSpec)} {idx : Nat} {name src : String} {m m' : Mgr}
    (h : addFile cfg fns idx name src m = .ok m') : m'.cfg = m.cfg := by
  obtain ⟨_, _, _, _, _, _, hc, _⟩ := addFile_ok h; exact hc

theorem loadFrom_ok (cfg : Cfg) (fns : List (String × EV.FnSpec)) : ∀ (files : List (String × String)) (i : Nat) (m m' : Mgr),
    TplInv cfg m.templates → loadFrom cfg fns i files m = .ok m' → TplInv cfg m'.templates ∧ m'.cfg = m.cfg
  | [], i, m, m', hinv, h => by
    simp only [loadFrom, LoadRes.ok.injEq] at h; subst h; exact ⟨hinv, rfl⟩
  | f :: rest, i, m, m', hinv, h => by
    rw [loadFrom] at h
    cases ha : addFile cfg fns (i + 1) f.1 f.2 m with
    | ok m1 =>
      simp only [ha] at h
      obtain ⟨r1, r2⟩ := loadFrom_ok cfg fns rest (i + 1) m1 m' (addFile_tplOK cfg fns _ _ _ m m1 hinv ha) h
      exact ⟨r1, r2.trans (addFile_cfg ha)⟩
    | err => simp [ha] at h
    | panic => simp [ha] at h
    | unsupported => simp [ha] at h

/-- **loaded_manager_ok.** Every template (file or fragment) of every manager that `loadFiles` returns has pairwise
    distinct node ids and attributes in the documented order. -/
theorem loaded_manager_ok (cfg : Cfg) (fns : List (String × EV.FnSpec)) (files : List (String × String)) (m : Mgr)
    (h : loadFiles cfg fns files = .ok m) :
    m.cfg = cfg ∧ ∀ p ∈ m.templates, (RN.ids p.2).Nodup ∧ RN.Sorted (rcfgOf cfg) p.2 := by
  obtain ⟨r1, r2⟩ := loadFrom_ok cfg fns files 0 (emptyMgr cfg fns) m (by intro p hp; cases hp) h
  exact ⟨r2, r1⟩

/-- the registry invariant is exactly the hypothesis `TplOK` of the refinement theorem -/
theorem tplOK_of_inv (cfg : Cfg) (m : Mgr) (hinv : TplInv cfg m.templates) : RN.TplOK (rcfgOf cfg) (envOf m) := by
  intro name t ht
  simp only [envOf, Option.map_eq_some_iff] at ht
  obtain ⟨p, hp, rfl⟩ := ht
  have := hinv p (List.mem_of_find?_eq_some hp)
  exact ⟨RN.uniq_of_nodup _ this.1, this.2⟩

/-- **execute_refines_loaded.** For every loaded manager the hypotheses of `RN.execute_refines` are discharged: a
    finished faithful execution of any registered template equals the structural specification. -/
theorem execute_refines_loaded (cfg : Cfg) (fns : List (String × EV.FnSpec)) (files : List (String × String)) (m : Mgr)
    (h : loadFiles cfg fns files = .ok m) (name : String) (root : Node) (hr : (envOf m).tpl name = some root)
    (fuel : Nat) (sc : List EV.Val) (hne : (RN.execute (rcfgOf cfg) (envOf m) fuel root sc).st ≠ .fuel) :
    ∃ g, RN.refExecute (rcfgOf cfg) (envOf m) g root sc = (RN.execute (rcfgOf cfg) (envOf m) fuel root sc).toQ := by
  obtain ⟨_, hinv⟩ := loaded_manager_ok cfg fns files m h
  have htpl := tplOK_of_inv cfg m hinv
  obtain ⟨hu, hs⟩ := htpl name root hr
  exact RN.execute_refines _ _ htpl fuel root sc hu hs hne

/-- the same for every node-level entry (`RN.exec_refines_ref`) -/
theorem exec_refines_loaded (cfg : Cfg) (fns : List (String × EV.FnSpec)) (files : List (String × String)) (m : Mgr)
    (h : loadFiles cfg fns files = .ok m) (name : String) (root : Node) (hr : (envOf m).tpl name = some root)
    (fuel depth : Nat) (nc : RN.NC) (fl : RN.Fl) (sc : List EV.Val) (hc : RN.ClearOn fl (RN.ids root))
    (hne : (RN.exec (rcfgOf cfg) (envOf m) fuel depth nc fl root sc).st ≠ .fuel) :
    (∃ g, RN.refNode (rcfgOf cfg) (envOf m) g depth nc root sc = (RN.exec (rcfgOf cfg) (envOf m) fuel depth nc fl root sc).toQ) ∧
    (RN.exec (rcfgOf cfg) (envOf m) fuel depth nc fl root sc).fl = fl := by
  obtain ⟨_, hinv⟩ := loaded_manager_ok cfg fns files m h
  have htpl := tplOK_of_inv cfg m hinv
  obtain ⟨hu, hs⟩ := htpl name root hr
  exact RN.exec_refines_ref _ _ htpl fuel depth nc fl root sc hu hs hc hne

/-! ## 4. nothing dropped, duplicated or reordered -/

/-- **buildTree_preorder.** The pre-order flattening of the built tree — the token value of every node, plus the end
    value of every closed element, in document order — is the list of token values; `annotate` does not change it. -/
theorem buildTree_preorder (cfg : Cfg) (fileIdx : Nat) (toks : List HS.Token) (tbl tbl' : Tbl) (root : Node)
    (h : (buildTree cfg fileIdx toks).run tbl = (.ok root, tbl')) :
    flatten root = toks.map (fun t => String.ofList t.value) ∧
    flatten (annotate root) = toks.map (fun t => String.ofList t.value) := by
  have hb : buildTreeS cfg fileIdx toks tbl = (.ok root, tbl') := h
  exact ⟨buildTreeS_flatten hb, (annotate_kids_flatten root).trans (buildTreeS_flatten hb)⟩

/-! ## 5. C01 end to end -/

theorem find_registered {name : String} {root : Node} {old extra : List (String × Node)}
    (hnew : old.any (·.1 == name) = false) :
    ((old ++ [(name, root)] ++ extra).find? (·.1 == name)).map (·.2) = some root := by
  have h1 : old.find? (·.1 == name) = none := by
    rw [List.find?_eq_none]
    intro p hp
    have := List.any_eq_false.mp hnew p hp
    simpa using this
  simp [List.find?_append, h1]

/-- **render_identity (C01, end to end).** Add a file to a manager whose templates are well formed (e.g. the empty
    manager); let `r` be what the file's name resolves to. If `r` is `Plain` (no directive attribute, no block tag, no
    hidden comment) then every execution of `r` that does not run out of fuel succeeds, evaluates nothing, and prints
    the source token by token: there are the scanned tokens `toks`, whose values concatenate to `src`
    (`HS.scan_concat`), and a list `parts` of the same length whose concatenation is the output, where each part is
    either the token's value VERBATIM (text, comments, CDATA, closing tags of open elements) or — for start / void /
    self-closing / stray closing tags — `tokOut t`: `<name attr1[=value1] …>` with name, attribute names and attribute
    values (including quotes) verbatim and in source order, separated by single blanks.
    The renderer re-prints such tags (html/template.go writes "<", the name, " name=value" per attribute, ">"), so the
    identity is NOT exact: the normalisation is exactly `tokOut`, i.e. "the whitespace that separates the parts inside
    a tag". -/
theorem render_identity (cfg : Cfg) (fns : List (String × EV.FnSpec)) (idx : Nat) (name src : String) (m0 m : Mgr)
    (hinv : TplInv cfg m0.templates) (h : addFile cfg fns idx name src m0 = .ok m)
    (r : Node) (hr : (envOf m).tpl name = some r) (hp : RN.Spec.Plain (rcfgOf cfg) r)
    (fuel : Nat) (sc : List EV.Val) (hf : (RN.execute (rcfgOf cfg) (envOf m) fuel r sc).st ≠ .fuel) :
    (RN.execute (rcfgOf cfg) (envOf m) fuel r sc).st = .ok ∧
    (RN.execute (rcfgOf cfg) (envOf m) fuel r sc).log = [] ∧
    ∃ toks parts, HS.scan (scanCfg cfg) src.toList = .ok toks ∧
      (toks.map (·.value)).flatten = src.toList ∧
      Aligned PartRel toks parts ∧
      String.join (RN.execute (rcfgOf cfg) (envOf m) fuel r sc).out = String.join parts := by
  obtain ⟨toks, root0, tbl', hscan, hb, hadd, _, hnew⟩ := addFile_ok h
  obtain ⟨extra, hextra⟩ := addDefined_prefix cfg _ _ _ _ hadd
  -- the name resolves to the annotated root of the file
  have hr' : r = annotate root0 := by
    have := find_registered (root := annotate root0) (extra := extra) hnew
    simp only [envOf, hextra] at hr
    rw [this] at hr
    exact (Option.some.inj hr).symm
  subst hr'
  -- refinement + specification
  have hinv' := addFile_tplOK cfg fns idx name src m0 m hinv h
  have htpl := tplOK_of_inv cfg m hinv'
  obtain ⟨hu, hs⟩ := htpl name _ hr
  obtain ⟨g, hg⟩ := RN.execute_refines _ _ htpl fuel _ sc hu hs hf
  have hgf : (RN.refExecute (rcfgOf cfg) (envOf m) g (annotate root0) sc).st ≠ .fuel := by rw [hg]; exact hf
  obtain ⟨p1, p2, p3⟩ := RN.Props.render_plain (rcfgOf cfg) (envOf m) g (annotate root0) sc hp hgf
  rw [hg] at p1 p2 p3
  simp only [RN.R.toQ] at p1 p2 p3
  refine ⟨p1, p3, toks, (flatDL root0.kids).map entryPrint, hscan, HS.scan_concat _ _ _ hscan, ?_, p2.trans ?_⟩
  · obtain ⟨items, hal, _, rfl⟩ := buildTreeS_ok hb
    exact assemble_parts hal ((annotate_plain _ _).mp hp)
  · obtain ⟨items, hal, _, rfl⟩ := buildTreeS_ok hb
    rw [annotate_print, printNode_root _ rfl rfl]

/-! ## 6. towards C07 (load order): the registry only grows, by fresh names -/

/-- `tplManager.Add` keeps every registered template: the new registry is the old one followed by the file and then
    its fragments. -/
theorem addFile_appends (cfg : Cfg) (fns : List (String × EV.FnSpec)) (idx : Nat) (name src : String) (m m' : Mgr)
    (h : addFile cfg fns idx name src m = .ok m') :
    ∃ root frags, m'.templates = m.templates ++ (name, root) :: frags := by
  obtain ⟨toks, root0, tbl', _, _, hadd, _, _⟩ := addFile_ok h
  obtain ⟨extra, he⟩ := addDefined_prefix cfg _ _ _ _ hadd
  exact ⟨annotate root0, extra, by simp [he]⟩

/-- **load-order stability.** What a name resolves to never changes by loading further files: later loads cannot
    shadow or replace an earlier file or fragment. -/
theorem addFile_lookup_stable (cfg : Cfg) (fns : List (String × EV.FnSpec)) (idx : Nat) (name src : String) (m m' : Mgr)
    (h : addFile cfg fns idx name src m = .ok m') (n : String) (t : Node) (ht : (envOf m).tpl n = some t) :
    (envOf m').tpl n = some t := by
  obtain ⟨root, frags, he⟩ := addFile_appends cfg fns idx name src m m' h
  simp only [envOf, Option.map_eq_some_iff] at ht ⊢
  obtain ⟨p, hp, rfl⟩ := ht
  exact ⟨p, by rw [he, List.find?_append, hp]; rfl, rfl⟩

/-- **one namespace, no duplicates.** Files and fragments share one namespace and every name is registered at most
    once: if the names of a registry are pairwise distinct they still are after `Add` (which fails otherwise). -/
theorem addFile_names_nodup (cfg : Cfg) (fns : List (String × EV.FnSpec)) (idx : Nat) (name src : String) (m m' : Mgr)
    (hn : (m.templates.map (·.1)).Nodup) (h : addFile cfg fns idx name src m = .ok m') :
    (m'.templates.map (·.1)).Nodup := by
  obtain ⟨toks, root0, tbl', _, _, hadd, _, hnew⟩ := addFile_ok h
  exact addDefined_names cfg _ _ _ _ hadd (names_snoc_nodup hn hnew)

theorem loadFrom_names (cfg : Cfg) (fns : List (String × EV.FnSpec)) : ∀ (files : List (String × String)) (i : Nat) (m m' : Mgr),
    (m.templates.map (·.1)).Nodup → loadFrom cfg fns i files m = .ok m' → (m'.templates.map (·.1)).Nodup
  | [], i, m, m', hn, h => by
    simp only [loadFrom, LoadRes.ok.injEq] at h; subst h; exact hn
  | f :: rest, i, m, m', hn, h => by
    rw [loadFrom] at h
    cases ha : addFile cfg fns (i + 1) f.1 f.2 m with
    | ok m1 =>
      simp only [ha] at h
      exact loadFrom_names cfg fns rest (i + 1) m1 m' (addFile_names_nodup cfg fns _ _ _ m m1 hn ha) h
    | err => simp [ha] at h
    | panic => simp [ha] at h
    | unsupported => simp [ha] at h

/-- in every loaded manager each name (file or fragment) is registered exactly once, so lookup by name is
    independent of the position in the registry -/
theorem loaded_names_nodup (cfg : Cfg) (fns : List (String × EV.FnSpec)) (files : List (String × String)) (m : Mgr)
    (h : loadFiles cfg fns files = .ok m) : (m.templates.map (·.1)).Nodup :=
  loadFrom_names cfg fns files 0 (emptyMgr cfg fns) m (by simp [emptyMgr]) h

/-! ## non-vacuity: concrete documents (all checks by kernel evaluation) -/
namespace Example

/-- a document with `with` / `if` written in the "wrong" order, a void element, a closing tag that does not match,
    and a fragment definition with blank text around its content -/
def src : String :=
  "<div id=c :if=\"${true}\" :with=\"x := ${1}\"><br/>hi</q></div>\n<p :define=\"'f'\"> <b>z</b> </p>"

def toks : List HS.Token :=
  match HS.scan (scanCfg {}) src.toList with
  | .ok ts => ts
  | .error _ => []

set_option maxRecDepth 100000 in
theorem scan_ok : HS.scan (scanCfg {}) src.toList = .ok toks := by
  have h : (match HS.scan (scanCfg {}) src.toList with | .ok _ => true | .error _ => false) = true := by decide +kernel
  unfold toks
  cases hs : HS.scan (scanCfg {}) src.toList with
  | ok ts => rfl
  | error e => rw [hs] at h; cases h

/-- `buildTree` succeeds on it and yields a tree of 11 nodes (13 tokens: three of them close an element) -/
def buildCheck : Bool :=
  match (buildTree {} 1 toks).run #[] with
  | (.ok root, _) => (RN.ids (annotate root)).length == 11
  | _ => false

set_option maxRecDepth 100000 in
theorem buildCheck_true : buildCheck = true := by decide +kernel

theorem build_ok : ∃ root tbl', (buildTree {} 1 toks).run #[] = (.ok root, tbl') := by
  have h := buildCheck_true
  unfold buildCheck at h
  split at h
  · rename_i root t hrun; exact ⟨root, t, hrun⟩
  · cases h

/-- the hypothesis of `loaded_uniq` / `buildTree_preorder` holds for this document (13 tokens, 11 nodes: `buildCheck_true`) -/
example : ∃ root tbl', (buildTree {} 1 toks).run #[] = (.ok root, tbl') ∧ (RN.ids (annotate root)).Nodup ∧
    flatten (annotate root) = toks.map (fun t => String.ofList t.value) := by
  obtain ⟨root, tbl', h⟩ := build_ok
  exact ⟨root, tbl', h, (loaded_uniq _ _ _ _ _ _ h).1, (buildTree_preorder _ _ _ _ _ _ h).2⟩

/-- the hypotheses of `loaded_sorted` hold for it -/
example : ∃ root tbl', (buildTree {} 1 toks).run #[] = (.ok root, tbl') ∧ RN.Sorted (rcfgOf {}) (annotate root) := by
  obtain ⟨root, tbl', h⟩ := build_ok
  exact ⟨root, tbl', h, (loaded_sorted _ _ _ _ _ _ (scanned_tokNodup _ _ _ scan_ok) h).1⟩

/-- two files; the second uses the fragment of the first -/
def files : List (String × String) :=
  [("lib", src), ("main", "<li :range=\"i, v : xs\" :text=\"${v}\">-</li><u :insert=\"'f'\">x</u>")]

def data : List EV.Val := [.map "map[string]interface {}" [("xs", .slice "[]int" [.int .int 4, .int .int 5] 2)], emptyMap]

/-- the run finished and printed `s` -/
def runIs (r : RN.R) (s : String) : Bool := decide (r.st ≠ .fuel) && String.join r.out == s

/-- all hypotheses of `execute_refines_loaded` at once, as a Boolean -/
def demo : Bool :=
  match loadFiles {} [] files with
  | .ok m =>
    match (envOf m).tpl "main" with
    | some root => runIs (RN.execute (rcfgOf {}) (envOf m) 200 root data) "<li>4</li><li>5</li><u><b>z</b></u>"
    | none => false
  | _ => false

set_option maxRecDepth 100000 in
theorem demo_true : demo = true := by decide +kernel

/-- the hypotheses of `loaded_manager_ok`, `loaded_names_nodup` and `execute_refines_loaded` are satisfiable (two
    files, the second inserts a fragment of the first; the run does something) -/
example : ∃ m root, loadFiles {} [] files = .ok m ∧ (envOf m).tpl "main" = some root ∧
    (RN.execute (rcfgOf {}) (envOf m) 200 root data).st ≠ .fuel ∧
    (∀ p ∈ m.templates, (RN.ids p.2).Nodup ∧ RN.Sorted (rcfgOf {}) p.2) ∧
    (m.templates.map (·.1)).Nodup ∧
    ∃ g, RN.refExecute (rcfgOf {}) (envOf m) g root data = (RN.execute (rcfgOf {}) (envOf m) 200 root data).toQ := by
  have h := demo_true
  unfold demo at h
  split at h
  · rename_i m hm
    split at h
    · rename_i root hroot
      simp only [runIs, Bool.and_eq_true, decide_eq_true_eq] at h
      exact ⟨m, root, hm, hroot, h.1, (loaded_manager_ok _ _ _ _ hm).2, loaded_names_nodup _ _ _ _ hm,
        execute_refines_loaded _ _ _ _ hm "main" root hroot 200 data h.1⟩
    · cases h
  · cases h

/-- a directive-free document: irregular whitespace inside tags, an unclosed element and a stray closing tag, a void element,
    a comment, a raw-text element -/
def plainSrc : String :=
  "<p  class = \"a b\"\n id=x  hidden >hi<br/></p ></q><!-- c --><script>a<b</script><i>"

def plainDemo : Bool :=
  match addFile {} [] 1 "t" plainSrc (emptyMgr {} []) with
  | .ok m =>
    match (envOf m).tpl "t" with
    | some r => RN.Spec.plainB (rcfgOf {}) r && runIs (RN.execute (rcfgOf {}) (envOf m) 100 r [])
          "<p class=\"a b\" id=x hidden>hi<br/></p ></q><!-- c --><script>a<b</script><i>"
    | none => false
  | _ => false

set_option maxRecDepth 100000 in
theorem plainDemo_true : plainDemo = true := by decide +kernel

/-- the hypotheses of `addFile_tplOK` and `render_identity` are satisfiable; only the blanks inside `<p …>` changed
    (the closing tag `</p >` is printed verbatim) -/
example : ∃ m r, addFile {} [] 1 "t" plainSrc (emptyMgr {} []) = .ok m ∧ (envOf m).tpl "t" = some r ∧
    RN.Spec.Plain (rcfgOf {}) r ∧ (RN.execute (rcfgOf {}) (envOf m) 100 r []).st ≠ .fuel ∧
    TplInv {} m.templates ∧
    (RN.execute (rcfgOf {}) (envOf m) 100 r []).st = .ok := by
  have h := plainDemo_true
  unfold plainDemo at h
  split at h
  · rename_i m hm
    split at h
    · rename_i r hr
      simp only [runIs, Bool.and_eq_true, decide_eq_true_eq] at h
      have hinv : TplInv {} (emptyMgr {} []).templates := by intro p hp; cases hp
      exact ⟨m, r, hm, hr, h.1, h.2.1, addFile_tplOK _ _ _ _ _ _ _ hinv hm,
        (render_identity _ _ _ _ _ _ _ hinv hm r hr h.1 100 [] h.2.1).1⟩
    · cases h
  · cases h

end Example

end EN
