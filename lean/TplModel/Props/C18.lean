import TplModel.Generated.Facts
import TplModel.Sys.Reload
import TplModel.Proofs.Reload
/-! # C18 — the HTML renderer serves every request from the most recent successfully built template set

Headline theorems only; model and spec in `TplModel/Sys/Reload.lean` (namespace `RL`), helper lemmas in
`TplModel/Proofs/Reload.lean`.  All statements quantify over ALL finite operation lists, both first-build outcomes and
(where it makes sense) both hot-reload modes.  `(run hot first ops)[i]?` is the observable result of the `i`-th
operation; `ops.take i` are the operations before it. -/
namespace C18
open RL

/-- In both modes the stored manager is the one produced by the most recent successful build. -/
theorem state_is_last_success (hot : Bool) (first : Build) (ops : List Op) :
    (exec hot first ops).current = lastSuccess first ops :=
  exec_current hot first ops

/-- Normal mode: every `Instance`+`Render` and every `GetTemplate` is answered by the template set of the most recent
    successful `Reload` before it (else the initial build), `noManager` when no build ever succeeded; the build
    outcome attached to the operation is irrelevant (the builder is not called). -/
theorem serves_last_success (first : Build) (ops : List Op) (i : Nat) (h : i < ops.length) :
    (∀ name b hdr, ops[i] = .request name b hdr →
      (run false first ops)[i]? =
        some (.request (serveFrom (lastSuccess first (ops.take i)) name) (!hdr))) ∧
    (∀ name b, ops[i] = .getTemplate name b →
      (run false first ops)[i]? =
        some (.getTemplate (serveFrom (lastSuccess first (ops.take i)) name))) := by
  constructor
  · intro name b hdr hop
    rw [run_getElem? false first ops i h, hop]
    simp only [step, getTpl_cold, exec_current]
  · intro name b hop
    rw [run_getElem? false first ops i h, hop]
    simp only [step, getTpl_cold, exec_current]

/-- A failing `Reload` returns its error and leaves the renderer exactly as it was … -/
theorem failed_reload_keeps_previous (hot : Bool) (s : State) :
    step hot s (.reload .fail) = (s, .reloadErr) := rfl

/-- … so, in both modes, everything observed afterwards is what would have been observed without it. -/
theorem failed_reload_keeps_previous_trace (hot : Bool) (first : Build) (pre post : List Op) :
    run hot first (pre ++ .reload .fail :: post) =
      run hot first pre ++ .reloadErr :: (run hot first (pre ++ post)).drop pre.length ∧
    lastSuccess first (pre ++ [.reload .fail]) = lastSuccess first pre := by
  refine ⟨?_, lastSuccess_after_fail first pre⟩
  have hlen : (runFrom hot (init hot first).1 pre).length = pre.length := runFrom_length ..
  simp only [run, runFrom_append, runFrom, failed_reload_keeps_previous, List.drop_left' hlen]

/-- A successful `Reload` reports success and installs the new set … -/
theorem successful_reload_visible (hot : Bool) (s : State) (m : Mgr) :
    step hot s (.reload (.ok m)) = ({ current := some m }, .reloadOk) := rfl

/-- … and (normal mode) every later request or lookup, up to the next successful `Reload`, is answered by it,
    whatever happened before and however many `Reload`s fail in between. -/
theorem successful_reload_visible_trace (first : Build) (pre : List Op) (m : Mgr) (post : List Op)
    (i : Nat) (h : i < post.length) (hnone : lastReload? (post.take i) = none) :
    (run false first (pre ++ .reload (.ok m) :: post))[pre.length]? = some .reloadOk ∧
    (∀ name b hdr, post[i] = .request name b hdr →
      (run false first (pre ++ .reload (.ok m) :: post))[pre.length + 1 + i]? =
        some (.request (.served m.id (m.has name)) (!hdr))) ∧
    (∀ name b, post[i] = .getTemplate name b →
      (run false first (pre ++ .reload (.ok m) :: post))[pre.length + 1 + i]? =
        some (.getTemplate (.served m.id (m.has name)))) := by
  have hlen : (runFrom false (init false first).1 pre).length = pre.length := runFrom_length ..
  have hrun : run false first (pre ++ .reload (.ok m) :: post) =
      runFrom false (init false first).1 pre ++ .reloadOk :: runFrom false { current := some m } post := by
    simp only [run, runFrom_append, runFrom, successful_reload_visible]
  have hidx : ∀ l : List Out, (runFrom false (init false first).1 pre ++ .reloadOk :: l)[pre.length + 1 + i]? = l[i]? := by
    intro l
    rw [List.getElem?_append_right (by omega), hlen]
    have : pre.length + 1 + i - pre.length = i + 1 := by omega
    rw [this, List.getElem?_cons_succ]
  have hcur : (execFrom false { current := some m } (post.take i)).current = some m := by
    rw [execFrom_current, hnone]
  rw [hrun]
  refine ⟨?_, ?_, ?_⟩
  · rw [List.getElem?_append_right (by omega), hlen]; simp
  · intro name b hdr hop
    rw [hidx, runFrom_getElem? false _ post i h, hop]
    simp only [step, getTpl_cold, hcur, serveFrom]
  · intro name b hop
    rw [hidx, runFrom_getElem? false _ post i h, hop]
    simp only [step, getTpl_cold, hcur, serveFrom]

/-- Hot reload: the answer to a request is a function of that request's own build alone
    (`ok m ↦ served m.id (m.has name)`, `fail ↦ buildErr`) — independent of the first build, of every `Reload`
    and of every other request. -/
theorem hot_reload_builds_per_request (first : Build) (ops : List Op) (i : Nat) (h : i < ops.length) :
    (∀ name b hdr, ops[i] = .request name b hdr →
      (run true first ops)[i]? = some (.request (serveFresh b name) (!hdr))) ∧
    (∀ name b, ops[i] = .getTemplate name b →
      (run true first ops)[i]? = some (.getTemplate (serveFresh b name))) := by
  constructor
  · intro name b hdr hop
    rw [run_getElem? true first ops i h, hop]
    simp only [step, getTpl_hot]
  · intro name b hop
    rw [run_getElem? true first ops i h, hop]
    simp only [step, getTpl_hot]

/-- Requests and lookups never change the renderer (in particular the per-request build of hot reload is not
    stored), in either mode. -/
theorem requests_leave_state (hot : Bool) (s : State) (name : Nat) (b : Build) (hdr : Bool) :
    (step hot s (.request name b hdr)).1 = s ∧ (step hot s (.getTemplate name b)).1 = s := ⟨rfl, rfl⟩

/-- Hot reload, the request's build fails: the request reports exactly that build error, nothing is written to
    the body, and the renderer is unchanged. -/
theorem failed_build_writes_nothing (first : Build) (ops : List Op) (i : Nat) (h : i < ops.length)
    (name : Nat) (hdr : Bool) (hop : ops[i] = .request name .fail hdr) :
    ∃ o, (run true first ops)[i]? = some o ∧ o = .request .buildErr (!hdr) ∧
      o.isErr = true ∧ written o = false ∧
      exec true first (ops.take (i + 1)) = exec true first (ops.take i) := by
  refine ⟨_, (hot_reload_builds_per_request first ops i h).1 name .fail hdr hop, rfl, rfl, rfl, ?_⟩
  rw [List.take_succ_eq_append_getElem h, hop]
  simp only [exec, execFrom_append, execFrom, step]

/-- More generally, in every run of either mode, an operation that reports an error (failed build, no manager,
    template not found, failed reload) has written nothing. -/
theorem error_writes_nothing (hot : Bool) (first : Build) (ops : List Op) (i : Nat) (o : Out)
    (_ho : (run hot first ops)[i]? = some o) (herr : o.isErr = true) : written o = false := by
  cases o with
  | reloadOk => rfl
  | reloadErr => rfl
  | getTemplate r => rfl
  | request r c => simpa [written, Out.isErr] using herr

/-- The renderer sets the content type exactly when the operation is a request whose handler has not set one
    (regardless of whether the render then fails); `Reload` and `GetTemplate` never touch headers. -/
theorem content_type_only_if_unset (hot : Bool) (first : Build) (ops : List Op) (i : Nat) (h : i < ops.length)
    (o : Out) (ho : (run hot first ops)[i]? = some o) :
    o.ctSet = true ↔ ∃ name b, ops[i] = .request name b false := by
  rw [run_getElem? hot first ops i h] at ho
  cases ho
  cases hop : ops[i] with
  | reload b => cases b <;> simp [step, reload, builderCall, Out.ctSet]
  | getTemplate name b => simp [step, Out.ctSet]
  | request name b hdr => cases hdr <;> simp [step, Out.ctSet]

/-! ## Non-vacuity: the hypotheses are satisfiable on concrete histories and the conclusions are the expected values -/

private def A : Mgr := .ofList 1 [10, 11]
private def B : Mgr := .ofList 2 [10, 12]
private def hist : List Op :=
  [.request 11 .fail false, .reload .fail, .getTemplate 12 (.ok B), .reload (.ok B), .reload .fail,
   .request 12 .fail true, .getTemplate 11 .fail]

-- serves_last_success: index 5 is a request after [ok A], fail, ok B, fail ⇒ served by B
example : hist[5] = .request 12 .fail true ∧ (lastSuccess (.ok A) (hist.take 5)).map (·.id) = some 2 ∧
    (run false (.ok A) hist)[5]? = some (.request (.served 2 true) false) :=
  ⟨rfl, by decide, ((serves_last_success (.ok A) hist 5 (by decide)).1 12 .fail true rfl).trans (by decide)⟩
-- … and with no successful build at all the answer is noManager
example : (run false .fail hist)[2]? = some (.getTemplate .noManager) :=
  ((serves_last_success .fail hist 2 (by decide)).2 12 (.ok B) rfl).trans (by decide)

-- failed_reload_keeps_previous_trace
example : run false (.ok A) ([.request 11 .fail false] ++ .reload .fail :: [.getTemplate 12 (.ok B)]) =
    [.request (.served 1 true) true, .reloadErr, .getTemplate (.served 1 false)] := by
  rw [(failed_reload_keeps_previous_trace false (.ok A) _ _).1]; decide

-- successful_reload_visible_trace: pre = first three ops, post = [reload fail, request 12, getTemplate 11]
example : (run false (.ok A) hist)[3 + 1 + 1]? = some (.request (.served B.id (B.has 12)) (!true)) :=
  (successful_reload_visible_trace (.ok A) (hist.take 3) B (hist.drop 4) 1 (by decide) rfl).2.1 12 .fail true rfl

-- hot_reload_builds_per_request / failed_build_writes_nothing
example : (run true (.ok A) hist)[2]? = some (.getTemplate (.served 2 true)) :=
  ((hot_reload_builds_per_request (.ok A) hist 2 (by decide)).2 12 (.ok B) rfl).trans (by decide)
example : ∃ o, (run true (.ok A) hist)[5]? = some o ∧ o = .request .buildErr false ∧ written o = false := by
  obtain ⟨o, h1, h2, _, h4, _⟩ := failed_build_writes_nothing (.ok A) hist 5 (by decide) 12 true rfl
  exact ⟨o, h1, h2, h4⟩
-- `written` is not constantly false: a found template in normal mode writes
example : ((run false (.ok A) hist).map written) = [true, false, false, false, false, true, false] := by decide
example : ((run true (.ok A) hist).map written) = [false, false, false, false, false, false, false] := by decide

-- content_type_only_if_unset: set for index 0 (handler left it unset), not for index 5 (handler set it),
-- and it is set even though the hot-mode render of index 0 fails
example : ((run false (.ok A) hist).map Out.ctSet) = [true, false, false, false, false, false, false] := by decide
example : (run true (.ok A) hist)[0]? = some (.request .buildErr true) := by decide
example : (Out.request .buildErr true).ctSet = true :=
  (content_type_only_if_unset true (.ok A) hist 0 (by decide) _ (by decide)).2 ⟨11, .fail, rfl⟩


/-- tie to the code: render.go uses a sync/atomic primitive for the manager shared by Reload and requests -/
theorem manager_field_synchronised : Facts.renderUsesSync = true := by decide

end C18
