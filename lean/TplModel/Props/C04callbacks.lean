import TplModel.Props.Callbacks
/-! # C04 — the concrete `processRange` of a loaded manager: closed form of `EN.rangeItems` and the fully concrete rendering of a ranged `:text` element

The theorems live in `Props/Callbacks.lean` (helpers in `Proofs/CallbackSpec.lean`); this file lists the ones C04 relies on.

OBLIGATIONS: Callbacks.rangeItems_spec, Callbacks.rangeItems_slice, Callbacks.rangeItems_array, Callbacks.rangeItems_string, Callbacks.rangeItems_map, Callbacks.rangeItems_map_perm, Callbacks.rangeItems_empty, Callbacks.rangeItems_not_collection, Callbacks.rangeItems_eval_error, Callbacks.rangeItems_scopes_extend, Callbacks.lookup_in_item_scope, Callbacks.range_text_concrete, Callbacks.range_text_concrete_exec -/
