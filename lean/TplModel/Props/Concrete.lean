import TplModel.Proofs.ConcreteProofs
/-! # The renderer clauses C03 / C07 / C12 on the environment of a manager, in terms of VALUES

`Props/RenderProps.lean` proves the clauses of the renderer specification for ANY evaluation interface `RN.Env`.
`Props/Callbacks.lean` gives the interface `EN.envOf m` of a manager in closed form. This file instantiates the former
with the latter: conditions, fragment names and `text` values are given by what their compiled expression evaluates to
(`EN.evalExpr`, `EV.fmtV`, `EV.eval`), templates by the manager's registry.

Vocabulary (`Proofs/ConcreteProofs.lean`):
* `Prints cx sc a s lg` — the compiled directive value of `a` is the literal `"s"` (`lg = []`), or one block `"${e}"`
  (parts quote `${` block `}` quote, `e` = entry `k` of the expression table) with `evalExpr cx sc e = (.ok r, lg)` and
  `fmtV r = some s`;
* `EvalFails cx sc e c lg` — `(EV.eval cx.fns sc e).run {}` ends with a recorded error `er` (`c = .eval er.sentinel
  er.nosuch`, `lg` = the calls made) or panics (`c = .eval false false`, `lg = []`);
* `Shape cfg node a post` — the element's sorted attribute list is the directive `a` followed by static attributes `post`
  (not overridden, element not the block tag); `openTag node post` = `<name` + the static attributes + `>`;
* `CondPrints cfg m sc k s` — the `with` assignment of chain element `k` (if any) succeeds and its condition `Prints s`
  in the resulting scope `condScope cfg m sc k` (= `sc` without `with`); `condLog` = the events of that evaluation.

As in `Callbacks.range_text_concrete`, the node shapes (kind, attribute list with the compiled parts, table entries) are
HYPOTHESES; §4 obtains them from `EN.loadFiles` on source text, through the Boolean checkers of
`Proofs/ConcreteProofs.lean` §5 (`chainB`, `nonePrintsTrueB`, `condPrintsB`, `printsB`, `evalFailsB`, `shapeB`: sound
decision procedures for `Chain`, `NonePrintsTrue`, `CondPrints`, `Prints`, `EvalFails`, `Shape`). All statements hold for every manager `m` (loaded or
not) and every fuel with "not out of fuel"; the `…_exec` / `…_execute` forms transfer them to the faithful model
`RN.exec` for loaded managers.

OBLIGATIONS: Concrete.condition_on_printed_value, Concrete.condPrints_block, Concrete.condPrints_lit, Concrete.chain_concrete, Concrete.chain_concrete_nowith, Concrete.chain_none_concrete, Concrete.chain_concrete_execute, Concrete.insert_concrete_node, Concrete.insert_concrete, Concrete.insert_concrete_block, Concrete.replace_concrete_node, Concrete.replace_concrete, Concrete.unknown_name_concrete, Concrete.fragment_name_fails_concrete, Concrete.insert_concrete_exec, Concrete.text_concrete, Concrete.failure_concrete, Concrete.failure_concrete_err, Concrete.failure_concrete_panic, Concrete.failure_prefix_concrete, Concrete.failure_document_prefix_concrete, Concrete.failure_stops_siblings_concrete, Concrete.failure_siblings_indep_concrete, Concrete.failure_concrete_exec, Concrete.Demo.demo_true, Concrete.Demo.chain_demo, Concrete.Demo.chain_computed, Concrete.Demo.chainw_demo, Concrete.Demo.insert_demo, Concrete.Demo.replace_demo, Concrete.Demo.unknown_demo, Concrete.Demo.text_demo, Concrete.Demo.name_fails_demo, Concrete.Demo.insert_exec_demo, Concrete.Demo.frag_computed, Concrete.Demo.failure_demo, Concrete.Demo.panic_demo, Concrete.Demo.siblings_demo, Concrete.Demo.failure_exec_demo, Concrete.Demo.fail_computed -/
namespace Concrete
open EN
open EV (Val FnSpec fmtV)
open RN (CAttr Part NodeD Node NK Cls)
open RN RN.Spec RN.Props

/-! ## 1. C03 — conditional chains -/

/-- **The test is on the PRINTED value.** A block condition is satisfied iff the `%v` form of its value is the string
    `true`: the boolean `true` satisfies it, and so does the STRING `"true"` (and any other value printing `true`). A
    value printing anything else — the integer `1`, `"TRUE"`, `" true"` … — does not: the attribute then `Prints` that
    other string, which is what `NonePrintsTrue` / `chain_concrete` ask of an unselected element. -/
theorem condition_on_printed_value (cx : Ctx) (sc : List Val) (a : CAttr) (v : String) (k : Nat) (r : Val) (lg : List String)
    (hv : a.value = some v) (hp : a.parts = blockParts k) (he : evalExpr cx sc cx.exprs[k]! = (.ok r, lg)) :
    ((r = .bool true ∨ r = .str "true") → Prints cx sc a "true" lg) ∧
    (∀ s, fmtV r = some s → (Prints cx sc a s lg ∧ attrEvaluate cx a sc = (.ok s, lg))) := by
  refine ⟨fun h => ?_, fun s hs => ?_⟩
  · rcases h with rfl | rfl
    · exact .block v k _ hv hp he rfl
    · exact .block v k _ hv hp he rfl
  · have := Prints.block v k r hv hp he hs
    exact ⟨this, this.eval⟩

example : fmtV (.bool true) = some "true" ∧ fmtV (.str "true") = some "true" ∧ fmtV (.int .int 1) = some "1" ∧
    fmtV (.str "TRUE") = some "TRUE" ∧ fmtV (.bool false) = some "false" := by decide +kernel

/-- how `CondPrints` is obtained from values, for an element without `with` whose condition is one block `"${e}"`: `e`
    evaluates in `sc` to `r`, and `s` is the printed form of `r`; the condition's events are those of that evaluation -/
theorem condPrints_block (cfg : RN.Cfg) (m : Mgr) (sc : List Val) (k : Node) (v : String) (i : Nat) (r : Val)
    (lg : List String) (s : String) (hkind : k.d.kind = .tag) (hw : withAttr cfg k.d.attrs = none)
    (hv : (condOf cfg k).value = some v) (hp : (condOf cfg k).parts = blockParts i)
    (he : evalExpr m.cx sc m.cx.exprs[i]! = (.ok r, lg)) (hf : fmtV r = some s) :
    CondPrints cfg m sc k s ∧ condLog cfg m sc k = lg := by
  have hsc := condScope_noWith m hw sc
  have hp' : Prints m.cx sc (condOf cfg k) s lg := .block v i r hv hp he hf
  refine ⟨⟨⟨sc, [], withPhase_noWith (envOf m) hw sc⟩, lg, by rw [hsc]; exact hp'⟩, ?_⟩
  simp only [condLog, hkind, if_true, hsc]
  exact hp'.log_eq.symm

/-- … whose condition is a literal (`:if="true"`, `:else-if="false"`, `:else` — which the loader stores as the literal
    `true`): it prints the literal, without events -/
theorem condPrints_lit (cfg : RN.Cfg) (m : Mgr) (sc : List Val) (k : Node) (v s : String)
    (hw : withAttr cfg k.d.attrs = none) (hv : (condOf cfg k).value = some v) (hp : (condOf cfg k).parts = litParts s) :
    CondPrints cfg m sc k s ∧ condLog cfg m sc k = [] := by
  have hsc := condScope_noWith m hw sc
  have hp' : Prints m.cx sc (condOf cfg k) s [] := .lit v hv hp rfl
  refine ⟨⟨⟨sc, [], withPhase_noWith (envOf m) hw sc⟩, [], by rw [hsc]; exact hp'⟩, ?_⟩
  simp only [condLog, hsc]
  split
  · exact hp'.log_eq.symm
  · rfl

/-- **C03 `chain_concrete`.** Manager `m`, sibling list `pre ++ e :: post` forming a chain (`Chain`: an `if` element,
    then else-family elements each naming the previous one, text / comment leaves in between). Suppose
    * for every element of `pre` the condition PRINTS something other than `true` (`NonePrintsTrue`: a literal, or a
      block `${c}` with `evalExpr … c = (.ok r, _)`, `fmtV r = some s`, `s ≠ "true"`),
    * the condition of `e` prints `true` (`:else` without value is the literal `true`),
    * the `with` assignments of the elements of `post` succeed.
    Then exactly the body of `e` is rendered (one chunk), in the scope after its `with`; every other element gives the
    empty chunk, leaves are printed. The events are, in sibling order: `with` + condition (`condLog` = the events of
    `evalExpr` on the condition block) of the elements of `pre`, `with` + condition + body of `e`, and ONLY the `with`
    events of `post` — the conditions after the selected element are NOT evaluated: no `condLog` of an element of
    `post` occurs. If the body fails, that failure is the result and nothing after it runs. -/
theorem chain_concrete (cfg : RN.Cfg) (m : Mgr) (F depth : Nat) (nc : NC) (sc : List Val)
    (pre post : List Node) (e : Node)
    (hch : Chain cfg (pre ++ e :: post))
    (hf : (refKids cfg (envOf m) F depth nc (pre ++ e :: post) sc).st ≠ .fuel)
    (hpre : NonePrintsTrue cfg m sc pre) (hk : e.d.kind = .tag) (he : CondPrints cfg m sc e "true")
    (hpost : AllWith cfg (envOf m) sc post) :
    let body := refRest cfg (envOf m) (F - 1) depth (setNc (ncMark false nc pre) e.d.id true) e (condScope cfg m sc e)
    refKids cfg (envOf m) F depth nc (pre ++ e :: post) sc =
      if body.st = .ok then
        { st := .ok,
          out := pre.flatMap sibChunks ++ ([String.join body.out] ++ post.flatMap sibChunks),
          log := (pre.flatMap fun k => withLog cfg (envOf m) sc k ++ condLog cfg m sc k) ++
            (withLog cfg (envOf m) sc e ++ (condLog cfg m sc e ++ body.log) ++
              post.flatMap (withLog cfg (envOf m) sc)),
          nc := ncMark true body.nc post }
      else
        { st := body.st, out := pre.flatMap sibChunks,
          log := (pre.flatMap fun k => withLog cfg (envOf m) sc k ++ condLog cfg m sc k) ++
            (withLog cfg (envOf m) sc e ++ (condLog cfg m sc e ++ body.log)),
          nc := body.nc } := by
  intro body
  have h := chain_first_true cfg (envOf m) F depth nc sc pre post e _ hch hf (allFalse_of hpre) hk
    (elemEval_of_condPrints he) (by simp) hpost
  simp only [falseLog_eq hpre, List.append_nil] at h
  rw [h]
  simp only [withLog, condLog, hk, if_true]
  rfl

/-- **C03 `chain_concrete_nowith`.** The same when no element of the list carries a `with` attribute (the case
    `<a :if="${c1}">…</a> <b :else-if="${c2}">…</b> <c :else>…</c>`): every condition is evaluated in `sc`, the body of
    `e` is rendered in `sc`, and the log is exactly the evaluation events of the conditions of `pre` and of `e`, in
    order, followed by the body's. Nothing of `post` is evaluated. -/
theorem chain_concrete_nowith (cfg : RN.Cfg) (m : Mgr) (F depth : Nat) (nc : NC) (sc : List Val)
    (pre post : List Node) (e : Node)
    (hch : Chain cfg (pre ++ e :: post))
    (hf : (refKids cfg (envOf m) F depth nc (pre ++ e :: post) sc).st ≠ .fuel)
    (hnw : NoWith cfg (pre ++ e :: post))
    (hpre : NonePrintsTrue cfg m sc pre) (hk : e.d.kind = .tag) (he : CondPrints cfg m sc e "true")
    (hpost : ∀ k ∈ post, k.d.kind ≠ .tag → k.kids = []) :
    let body := refRest cfg (envOf m) (F - 1) depth (setNc (ncMark false nc pre) e.d.id true) e sc
    refKids cfg (envOf m) F depth nc (pre ++ e :: post) sc =
      if body.st = .ok then
        { st := .ok,
          out := pre.flatMap sibChunks ++ ([String.join body.out] ++ post.flatMap sibChunks),
          log := pre.flatMap (condLog cfg m sc) ++ (condLog cfg m sc e ++ body.log),
          nc := ncMark true body.nc post }
      else
        { st := body.st, out := pre.flatMap sibChunks,
          log := pre.flatMap (condLog cfg m sc) ++ (condLog cfg m sc e ++ body.log), nc := body.nc } := by
  intro body
  have hpostW : AllWith cfg (envOf m) sc post :=
    allWith_noWith (envOf m) sc (fun k hk' => hnw k (by simp [hk'])) hpost
  have h := chain_concrete cfg m F depth nc sc pre post e hch hf hpre hk he hpostW
  have he0 : withAttr cfg e.d.attrs = none := hnw e (by simp)
  have h1 : (pre.flatMap fun k => withLog cfg (envOf m) sc k ++ condLog cfg m sc k) = pre.flatMap (condLog cfg m sc) :=
    flatMap_congr' fun k hk' => by rw [withLog_noWith (envOf m) (hnw k (by simp [hk'])) sc, List.nil_append]
  have h2 : post.flatMap (withLog cfg (envOf m) sc) = [] := by
    rw [List.flatMap_eq_nil_iff]
    intro k hk'
    exact withLog_noWith (envOf m) (hnw k (by simp [hk'])) sc
  simp only [h1, h2, withLog_noWith (envOf m) he0 sc, condScope_noWith m he0 sc, List.nil_append, List.append_nil] at h
  exact h

/-- **C03, the `else` case / no branch at all.** If no condition of the chain prints `true` (in particular the chain has
    no `:else`, whose condition is the literal `true`), every element gives the empty chunk and ALL conditions are
    evaluated, in order. When the last element is an `:else`, `chain_concrete` with `e` = that element and
    `post = []` is the "`else` branch is taken" statement. -/
theorem chain_none_concrete (cfg : RN.Cfg) (m : Mgr) (F depth : Nat) (nc : NC) (sc : List Val) (ks : List Node)
    (hch : Chain cfg ks) (hf : (refKids cfg (envOf m) F depth nc ks sc).st ≠ .fuel)
    (h : NonePrintsTrue cfg m sc ks) :
    refKids cfg (envOf m) F depth nc ks sc =
      { st := .ok, out := ks.flatMap sibChunks,
        log := ks.flatMap fun k => withLog cfg (envOf m) sc k ++ condLog cfg m sc k,
        nc := ncMark false nc ks } := by
  rw [chain_none_true cfg (envOf m) F depth nc sc ks hch hf (allFalse_of h), falseLog_eq h]

/-- **C03 for the faithful model.** A template of a LOADED manager whose root has the chain as its children: a finished
    `RN.execute` of it is `""` followed by the chunks of `chain_concrete`, for a body rendered at some specification fuel
    `g` (at which it did not run out of fuel, so its value does not depend on `g`: `RN.Spec.refRest_mono`). -/
theorem chain_concrete_execute (cfg : EN.Cfg) (fns : List (String × FnSpec)) (files : List (String × String)) (m : Mgr)
    (hload : loadFiles cfg fns files = .ok m) (name : String) (root : Node) (hr : (envOf m).tpl name = some root)
    (hroot : root.d.kind = .root) (hend : root.endVal = none)
    (pre post : List Node) (e : Node) (hkids : root.kids = pre ++ e :: post)
    (hch : Chain (rcfgOf cfg) (pre ++ e :: post)) (sc : List Val)
    (hpre : NonePrintsTrue (rcfgOf cfg) m sc pre) (hk : e.d.kind = .tag) (he : CondPrints (rcfgOf cfg) m sc e "true")
    (hpost : AllWith (rcfgOf cfg) (envOf m) sc post)
    (fuel : Nat) (hne : (execute (rcfgOf cfg) (envOf m) fuel root sc).st ≠ .fuel) :
    ∃ g, let body := refRest (rcfgOf cfg) (envOf m) g 0 (setNc (ncMark false emptyNc pre) e.d.id true) e
          (condScope (rcfgOf cfg) m sc e)
      body.st ≠ .fuel ∧
      (execute (rcfgOf cfg) (envOf m) fuel root sc).toQ =
        if body.st = .ok then
          { st := .ok,
            out := "" :: (pre.flatMap sibChunks ++ ([String.join body.out] ++ post.flatMap sibChunks)),
            log := (pre.flatMap fun k => withLog (rcfgOf cfg) (envOf m) sc k ++ condLog (rcfgOf cfg) m sc k) ++
              (withLog (rcfgOf cfg) (envOf m) sc e ++ (condLog (rcfgOf cfg) m sc e ++ body.log) ++
                post.flatMap (withLog (rcfgOf cfg) (envOf m) sc)),
            nc := ncMark true body.nc post }
        else
          { st := body.st, out := "" :: pre.flatMap sibChunks,
            log := (pre.flatMap fun k => withLog (rcfgOf cfg) (envOf m) sc k ++ condLog (rcfgOf cfg) m sc k) ++
              (withLog (rcfgOf cfg) (envOf m) sc e ++ (condLog (rcfgOf cfg) m sc e ++ body.log)),
            nc := body.nc } := by
  obtain ⟨g, hg⟩ := execute_refines_loaded cfg fns files m hload name root hr fuel sc hne
  have hgf : (refNode (rcfgOf cfg) (envOf m) g 0 emptyNc root sc).st ≠ .fuel := by
    have : (refExecute (rcfgOf cfg) (envOf m) g root sc).st ≠ .fuel := by rw [hg]; exact hne
    exact this
  obtain ⟨hkf, hroot'⟩ := root_render (rcfgOf cfg) (envOf m) g 0 emptyNc root sc hroot hend hgf
  rw [hkids] at hkf hroot'
  have hc := chain_concrete (rcfgOf cfg) m g 0 emptyNc sc pre post e hch hkf hpre hk he hpost
  refine ⟨g - 1, ?_⟩
  intro body
  have hbody : body.st ≠ .fuel := by
    intro hb
    apply hkf
    rw [hc]
    simp only [show (refRest (rcfgOf cfg) (envOf m) (g - 1) 0 (setNc (ncMark false emptyNc pre) e.d.id true) e
      (condScope (rcfgOf cfg) m sc e)) = body from rfl, hb]
    simp
  refine ⟨hbody, ?_⟩
  rw [← hg]
  show refNode (rcfgOf cfg) (envOf m) g 0 emptyNc root sc = _
  rw [hroot', hc]
  by_cases hb : body.st = .ok
  · rw [if_pos hb, if_pos hb]
  · rw [if_neg hb, if_neg hb]

/-! ## 2. C07 — `insert` / `replace` of a registered fragment -/

/-- **C07 `insert_concrete_node`.** Manager `m`; `node` is `<x :insert=… statics>…</x>` (`Shape`), the value of the
    `insert` attribute PRINTS `name` in the scope `sc` of the call site (`Prints`: a literal, or a block `${e}` whose
    value prints `name`), and `name` resolves to the template root `r` in `m`'s registry. Below the depth limit, a run
    of the element that is not out of fuel is determined by the rendering `q` of `r` IN THE SCOPE OF THE CALL SITE, one
    level deeper, with FRESH condition records (`emptyNc`):
    * `q` succeeds: the element is the start tag with the fragment's text appended — one chunk — and the end tag; the
      events are those of the name followed by the fragment's; the host's own children are NOT rendered (`node.kids`
      does not occur) and the caller's condition records are unchanged;
    * `q` fails: that failure, nothing written, same events. -/
theorem insert_concrete_node (cfg : RN.Cfg) (m : Mgr) (node : Node) (a : CAttr) (post : List CAttr)
    (hs : Shape cfg node a post) (hk : classify cfg a = .insert)
    (sc : List Val) (name : String) (lg : List String) (hname : Prints m.cx sc a name lg)
    (r : Node) (hT : (envOf m).tpl name = some r)
    (f depth : Nat) (nc : NC) (hd : depth + 1 ≤ cfg.maxDepth)
    (hf : (refNode cfg (envOf m) f depth nc node sc).st ≠ .fuel) :
    let q := refNode cfg (envOf m) f (depth + 1) emptyNc r sc
    q.st ≠ .fuel ∧
    refNode cfg (envOf m) f depth nc node sc =
      if q.st = .ok then
        { st := .ok, out := [openTag node post ++ String.join q.out] ++ endChunks node.endVal false,
          log := lg ++ q.log, nc := nc }
      else { st := q.st, out := [], log := lg ++ q.log, nc := nc } := by
  intro q
  have hb := hs.node_eq_body (isCtl_of_frag (.inl hk)) (envOf m) f depth nc sc hf
  rw [hb] at hf ⊢
  exact hs.insert_body hk (envOf m) f depth nc sc name lg r hname.eval hT hd hf

/-- **C07 `insert_concrete`.** … for a template root `r` (kind `root`, no end tag — every file root and every fragment
    root `EN.fragRoot`): `<x …>` ++ the rendering of `r`'s CHILDREN (`K`: in the call-site scope, fresh condition
    records, depth + 1) ++ `</x>`. -/
theorem insert_concrete (cfg : RN.Cfg) (m : Mgr) (node : Node) (a : CAttr) (post : List CAttr)
    (hs : Shape cfg node a post) (hk : classify cfg a = .insert)
    (sc : List Val) (name : String) (lg : List String) (hname : Prints m.cx sc a name lg)
    (r : Node) (hT : (envOf m).tpl name = some r) (hroot : r.d.kind = .root) (hend : r.endVal = none)
    (f depth : Nat) (nc : NC) (hd : depth + 1 ≤ cfg.maxDepth)
    (hf : (refNode cfg (envOf m) f depth nc node sc).st ≠ .fuel) :
    let K := refKids cfg (envOf m) f (depth + 1) emptyNc r.kids sc
    K.st ≠ .fuel ∧
    refNode cfg (envOf m) f depth nc node sc =
      if K.st = .ok then
        { st := .ok, out := [openTag node post ++ String.join K.out] ++ endChunks node.endVal false,
          log := lg ++ K.log, nc := nc }
      else { st := K.st, out := [], log := lg ++ K.log, nc := nc } := by
  intro K
  obtain ⟨hq, h⟩ := insert_concrete_node cfg m node a post hs hk sc name lg hname r hT f depth nc hd hf
  obtain ⟨hK, hr⟩ := root_render cfg (envOf m) f (depth + 1) emptyNc r sc hroot hend hq
  refine ⟨hK, ?_⟩
  rw [h, hr]
  simp only [String.join_cons, String.empty_append]
  rfl

/-- **the name computed by a block**: `:insert="${e}"` calls the fragment named by the printed value (`%v`) of `e`,
    evaluated in the scope of the call site; the events of that evaluation come first -/
theorem insert_concrete_block (cfg : RN.Cfg) (m : Mgr) (node : Node) (a : CAttr) (post : List CAttr)
    (hs : Shape cfg node a post) (hk : classify cfg a = .insert)
    (v : String) (i : Nat) (hv : a.value = some v) (hp : a.parts = blockParts i)
    (sc : List Val) (x : Val) (name : String) (lg : List String)
    (he : evalExpr m.cx sc m.cx.exprs[i]! = (.ok x, lg)) (hfm : fmtV x = some name)
    (r : Node) (hT : (envOf m).tpl name = some r) (hroot : r.d.kind = .root) (hend : r.endVal = none)
    (f depth : Nat) (nc : NC) (hd : depth + 1 ≤ cfg.maxDepth)
    (hf : (refNode cfg (envOf m) f depth nc node sc).st ≠ .fuel) :
    let K := refKids cfg (envOf m) f (depth + 1) emptyNc r.kids sc
    K.st ≠ .fuel ∧
    refNode cfg (envOf m) f depth nc node sc =
      if K.st = .ok then
        { st := .ok, out := [openTag node post ++ String.join K.out] ++ endChunks node.endVal false,
          log := lg ++ K.log, nc := nc }
      else { st := K.st, out := [], log := lg ++ K.log, nc := nc } :=
  insert_concrete cfg m node a post hs hk sc name lg (.block v i x hv hp he hfm) r hT hroot hend f depth nc hd hf

/-- **C07 `replace_concrete_node`.** As `insert_concrete_node` for `<x :replace=… statics>…</x>`: the element is
    substituted by the fragment's text — no start tag, no static attributes, no children of the host, no end tag. -/
theorem replace_concrete_node (cfg : RN.Cfg) (m : Mgr) (node : Node) (a : CAttr) (post : List CAttr)
    (hs : Shape cfg node a post) (hk : classify cfg a = .replace)
    (sc : List Val) (name : String) (lg : List String) (hname : Prints m.cx sc a name lg)
    (r : Node) (hT : (envOf m).tpl name = some r)
    (f depth : Nat) (nc : NC) (hd : depth + 1 ≤ cfg.maxDepth)
    (hf : (refNode cfg (envOf m) f depth nc node sc).st ≠ .fuel) :
    let q := refNode cfg (envOf m) f (depth + 1) emptyNc r sc
    q.st ≠ .fuel ∧
    refNode cfg (envOf m) f depth nc node sc =
      if q.st = .ok then { st := .ok, out := [String.join q.out], log := lg ++ q.log, nc := nc }
      else { st := q.st, out := [], log := lg ++ q.log, nc := nc } := by
  intro q
  have hb := hs.node_eq_body (isCtl_of_frag (.inr hk)) (envOf m) f depth nc sc hf
  rw [hb] at hf ⊢
  exact hs.replace_body hk (envOf m) f depth nc sc name lg r hname.eval hT hd hf

/-- **C07 `replace_concrete`.** … for a template root: ONLY the rendering of the fragment's children. -/
theorem replace_concrete (cfg : RN.Cfg) (m : Mgr) (node : Node) (a : CAttr) (post : List CAttr)
    (hs : Shape cfg node a post) (hk : classify cfg a = .replace)
    (sc : List Val) (name : String) (lg : List String) (hname : Prints m.cx sc a name lg)
    (r : Node) (hT : (envOf m).tpl name = some r) (hroot : r.d.kind = .root) (hend : r.endVal = none)
    (f depth : Nat) (nc : NC) (hd : depth + 1 ≤ cfg.maxDepth)
    (hf : (refNode cfg (envOf m) f depth nc node sc).st ≠ .fuel) :
    let K := refKids cfg (envOf m) f (depth + 1) emptyNc r.kids sc
    K.st ≠ .fuel ∧
    refNode cfg (envOf m) f depth nc node sc =
      if K.st = .ok then { st := .ok, out := [String.join K.out], log := lg ++ K.log, nc := nc }
      else { st := K.st, out := [], log := lg ++ K.log, nc := nc } := by
  intro K
  obtain ⟨hq, h⟩ := replace_concrete_node cfg m node a post hs hk sc name lg hname r hT f depth nc hd hf
  obtain ⟨hK, hr⟩ := root_render cfg (envOf m) f (depth + 1) emptyNc r sc hroot hend hq
  refine ⟨hK, ?_⟩
  rw [h, hr]
  simp only [String.join_cons, String.empty_append]
  rfl

/-- **C07 `unknown_name_concrete`.** The printed name is registered nowhere in the manager (neither a file nor a
    fragment: `EN.names`): `tplNotFound`, nothing written, the events of the name evaluation are kept
    (`EN.unknown_name_loaded` on this shape). -/
theorem unknown_name_concrete (cfg : RN.Cfg) (m : Mgr) (node : Node) (a : CAttr) (post : List CAttr)
    (hs : Shape cfg node a post) (hk : classify cfg a = .insert ∨ classify cfg a = .replace)
    (sc : List Val) (name : String) (lg : List String) (hname : Prints m.cx sc a name lg)
    (hT : name ∉ names m.templates)
    (f depth : Nat) (nc : NC) (hf : (refNode cfg (envOf m) f depth nc node sc).st ≠ .fuel) :
    refNode cfg (envOf m) f depth nc node sc = { st := .err .tplNotFound, out := [], log := lg, nc := nc } := by
  have hb := hs.node_eq_body (isCtl_of_frag hk) (envOf m) f depth nc sc hf
  rw [hb] at hf ⊢
  rw [unknown_name_loaded cfg m f depth nc node sc [] post a name lg hf hs.attrs hk.symm (by simp [attrsRun])
    hname.eval hT]
  simp [attrsRun]

/-- a fragment name whose block fails in the evaluator: that failure (class and events), nothing written, no fragment
    is looked up -/
theorem fragment_name_fails_concrete (cfg : RN.Cfg) (m : Mgr) (node : Node) (a : CAttr) (post : List CAttr)
    (hs : Shape cfg node a post) (hk : classify cfg a = .insert ∨ classify cfg a = .replace)
    (v : String) (i : Nat) (hv : a.value = some v) (hp : a.parts = blockParts i)
    (sc : List Val) (c : Cls) (lg : List String) (hfail : EvalFails m.cx sc m.cx.exprs[i]! c lg)
    (f depth : Nat) (nc : NC) (hf : (refNode cfg (envOf m) f depth nc node sc).st ≠ .fuel) :
    refNode cfg (envOf m) f depth nc node sc = { st := .err c, out := [], log := lg, nc := nc } := by
  have hb := hs.node_eq_body (isCtl_of_frag hk) (envOf m) f depth nc sc hf
  rw [hb] at hf ⊢
  exact hs.frag_name_fails hk (envOf m) f depth nc sc c lg (attrEvaluate_block_fails m.cx sc a v i c lg hv hp hfail) hf

/-- `insert_concrete` for the FAITHFUL model, on a manager whose templates are well formed (`TplOK`: every loaded
    manager, `EN.loaded_manager_ok` + `EN.tplOK_of_inv`), for a node with distinct ids and sorted attributes and clear
    flags: a finished `RN.exec` of the element is the wrapped rendering of the fragment's children at some specification
    fuel `g`, and the flags are restored. -/
theorem insert_concrete_exec (cfg : RN.Cfg) (m : Mgr) (htpl : TplOK cfg (envOf m))
    (node : Node) (a : CAttr) (post : List CAttr)
    (hs : Shape cfg node a post) (hk : classify cfg a = .insert)
    (sc : List Val) (name : String) (lg : List String) (hname : Prints m.cx sc a name lg)
    (r : Node) (hT : (envOf m).tpl name = some r) (hroot : r.d.kind = .root) (hend : r.endVal = none)
    (fuel depth : Nat) (nc : NC) (fl : Fl) (hd : depth + 1 ≤ cfg.maxDepth)
    (hu : Uniq node) (hso : Sorted cfg node) (hc : ClearOn fl (RN.ids node))
    (hne : (exec cfg (envOf m) fuel depth nc fl node sc).st ≠ .fuel) :
    (∃ g, let K := refKids cfg (envOf m) g (depth + 1) emptyNc r.kids sc
      K.st ≠ .fuel ∧
      (exec cfg (envOf m) fuel depth nc fl node sc).toQ =
        if K.st = .ok then
          { st := .ok, out := [openTag node post ++ String.join K.out] ++ endChunks node.endVal false,
            log := lg ++ K.log, nc := nc }
        else { st := K.st, out := [], log := lg ++ K.log, nc := nc }) ∧
    (exec cfg (envOf m) fuel depth nc fl node sc).fl = fl := by
  obtain ⟨⟨g, hg⟩, hfl⟩ := exec_refines_ref cfg (envOf m) htpl fuel depth nc fl node sc hu hso hc hne
  refine ⟨⟨g, ?_⟩, hfl⟩
  rw [← hg]
  exact insert_concrete cfg m node a post hs hk sc name lg hname r hT hroot hend g depth nc hd (by rw [hg]; exact hne)

/-! ## 3. C12 — a failing `:text="${e}"` -/

/-- the successful counterpart: `<x :text=… statics>` whose value prints `s` renders the start tag, the ESCAPED string
    `s` and the end tag; the element's own children are not rendered -/
theorem text_concrete (cfg : RN.Cfg) (m : Mgr) (node : Node) (a : CAttr) (post : List CAttr)
    (hs : Shape cfg node a post) (hk : classify cfg a = .text)
    (sc : List Val) (s : String) (lg : List String) (hp : Prints m.cx sc a s lg)
    (f depth : Nat) (nc : NC) (hf : (refNode cfg (envOf m) f depth nc node sc).st ≠ .fuel) :
    refNode cfg (envOf m) f depth nc node sc =
      { st := .ok, out := [openTag node post, RN.escapeHtml s] ++ endChunks node.endVal false, log := lg, nc := nc } := by
  have hb := hs.node_eq_body (isCtl_of_text hk) (envOf m) f depth nc sc hf
  rw [hb] at hf ⊢
  rw [hs.text_body hk (envOf m) f depth nc sc hf, show (envOf m).evalStr a sc = (.ok s, lg) from hp.eval]

/-- **C12 `failure_concrete`.** `node` is `<x :text="${e}" statics>…</x>` (`Shape`, the value is one block, `e` = entry
    `i` of the manager's expression table) and `e` FAILS in the evaluator in the scope `sc` (`EvalFails`: a recorded
    error of class `c = .eval sentinel nosuch` after the calls `lg`, or a panic: `c = .eval false false`, `lg = []`).
    Then a run of the element that is not out of fuel has status `.err c`; it has written exactly the start tag —
    the first chunk of the successful rendering (`text_concrete`, `failure_prefix_concrete`) — and nothing after it:
    no content, no end tag; the events are those of the failed evaluation. -/
theorem failure_concrete (cfg : RN.Cfg) (m : Mgr) (node : Node) (a : CAttr) (post : List CAttr)
    (hs : Shape cfg node a post) (hk : classify cfg a = .text)
    (v : String) (i : Nat) (hv : a.value = some v) (hp : a.parts = blockParts i)
    (sc : List Val) (c : Cls) (lg : List String) (hfail : EvalFails m.cx sc m.cx.exprs[i]! c lg)
    (f depth : Nat) (nc : NC) (hf : (refNode cfg (envOf m) f depth nc node sc).st ≠ .fuel) :
    refNode cfg (envOf m) f depth nc node sc = { st := .err c, out := [openTag node post], log := lg, nc := nc } := by
  have hb := hs.node_eq_body (isCtl_of_text hk) (envOf m) f depth nc sc hf
  rw [hb] at hf ⊢
  rw [hs.text_body hk (envOf m) f depth nc sc hf,
    show (envOf m).evalStr a sc = (.error c, lg) from attrEvaluate_block_fails m.cx sc a v i c lg hv hp hfail]

/-- … the evaluator ends with the recorded error `er`: status `.err (.eval er.sentinel er.nosuch)`; the events are the
    user-function calls made before (and by) the failure, in order -/
theorem failure_concrete_err (cfg : RN.Cfg) (m : Mgr) (node : Node) (a : CAttr) (post : List CAttr)
    (hs : Shape cfg node a post) (hk : classify cfg a = .text)
    (v : String) (i : Nat) (hv : a.value = some v) (hp : a.parts = blockParts i)
    (sc : List Val) (x : Val) (st : EV.St) (er : EV.Err)
    (hrun : (EV.eval m.cx.fns sc m.cx.exprs[i]!).run {} = .ok (x, st)) (herr : st.err = some er)
    (f depth : Nat) (nc : NC) (hf : (refNode cfg (envOf m) f depth nc node sc).st ≠ .fuel) :
    refNode cfg (envOf m) f depth nc node sc =
      { st := .err (.eval er.sentinel er.nosuch), out := [openTag node post],
        log := st.calls.reverse ++ (if st.unsupported then [unsupportedEv] else []), nc := nc } :=
  failure_concrete cfg m node a post hs hk v i hv hp sc _ _ (.err x st er hrun herr) f depth nc hf

/-- … the evaluator panics: status `.err (.eval false false)`, no events (the call log is lost with the panic) -/
theorem failure_concrete_panic (cfg : RN.Cfg) (m : Mgr) (node : Node) (a : CAttr) (post : List CAttr)
    (hs : Shape cfg node a post) (hk : classify cfg a = .text)
    (v : String) (i : Nat) (hv : a.value = some v) (hp : a.parts = blockParts i)
    (sc : List Val) (hrun : (EV.eval m.cx.fns sc m.cx.exprs[i]!).run {} = .error ())
    (f depth : Nat) (nc : NC) (hf : (refNode cfg (envOf m) f depth nc node sc).st ≠ .fuel) :
    refNode cfg (envOf m) f depth nc node sc =
      { st := .err (.eval false false), out := [openTag node post], log := [], nc := nc } :=
  failure_concrete cfg m node a post hs hk v i hv hp sc _ _ (.panic hrun) f depth nc hf

open Classical in
/-- **C12, the written chunks are the start of the successful rendering.** Replace the ONE failing evaluation (attribute
    `a` in scope `sc`) by a successful one yielding `s` (`RN.Props.patchEval`; `EnvLe`: everything that succeeded still
    does). The element then renders `[start tag, esc s] ++ end tag` (at the same fuel: the fuel a `text` element needs
    does not depend on the environment, `Shape.text_fuel_iff`), and what the failing run wrote — `[start tag]` — is a
    prefix of it. -/
theorem failure_prefix_concrete (cfg : RN.Cfg) (m : Mgr) (node : Node) (a : CAttr) (post : List CAttr)
    (hs : Shape cfg node a post) (hk : classify cfg a = .text)
    (v : String) (i : Nat) (hv : a.value = some v) (hp : a.parts = blockParts i)
    (sc : List Val) (c : Cls) (lg : List String) (hfail : EvalFails m.cx sc m.cx.exprs[i]! c lg)
    (s : String) (lg' : List String)
    (f depth : Nat) (nc : NC) (hf : (refNode cfg (envOf m) f depth nc node sc).st ≠ .fuel) :
    EnvLe (envOf m) (patchEval (envOf m) a sc (.ok s, lg')) ∧
    refNode cfg (patchEval (envOf m) a sc (.ok s, lg')) f depth nc node sc =
      { st := .ok, out := [openTag node post, RN.escapeHtml s] ++ endChunks node.endVal false, log := lg', nc := nc } ∧
    (refNode cfg (envOf m) f depth nc node sc).out <+:
      (refNode cfg (patchEval (envOf m) a sc (.ok s, lg')) f depth nc node sc).out := by
  have hE : (envOf m).evalStr a sc = (.error c, lg) := attrEvaluate_block_fails m.cx sc a v i c lg hv hp hfail
  have h1 := failure_concrete cfg m node a post hs hk v i hv hp sc c lg hfail f depth nc hf
  have hf' : (refNode cfg (patchEval (envOf m) a sc (.ok s, lg')) f depth nc node sc).st ≠ .fuel :=
    hs.text_fuel_indep hk (envOf m) _ f depth depth nc nc sc sc hf
  have h2 : refNode cfg (patchEval (envOf m) a sc (.ok s, lg')) f depth nc node sc =
      { st := .ok, out := [openTag node post, RN.escapeHtml s] ++ endChunks node.endVal false, log := lg', nc := nc } := by
    have hb := hs.node_eq_body (isCtl_of_text hk) (patchEval (envOf m) a sc (.ok s, lg')) f depth nc sc hf'
    rw [hb] at hf' ⊢
    rw [hs.text_body hk _ f depth nc sc hf']
    have : (patchEval (envOf m) a sc (.ok s, lg')).evalStr a sc = (.ok s, lg') := by simp [patchEval]
    rw [this]
  refine ⟨envLe_patchEval (envOf m) a sc _ c lg hE, h2, ?_⟩
  rw [h1, h2]
  exact ⟨RN.escapeHtml s :: endChunks node.endVal false, rfl⟩

open Classical in
/-- **C12 `output_is_prefix` on a manager.** For ANY template `root` and data `sc0`: if somewhere during the rendering
    the block of attribute `a` fails in scope `sc`, the chunks written by the (failed or not) run are a prefix of those
    written when that one evaluation is made to succeed; a successful run is reproduced exactly. -/
theorem failure_document_prefix_concrete (cfg : RN.Cfg) (m : Mgr) (a : CAttr)
    (v : String) (i : Nat) (hv : a.value = some v) (hp : a.parts = blockParts i)
    (sc : List Val) (c : Cls) (lg : List String) (hfail : EvalFails m.cx sc m.cx.exprs[i]! c lg)
    (r : Except Cls String × List String) (fuel : Nat) (root : Node) (sc0 : List Val)
    (hf : (refExecute cfg (envOf m) fuel root sc0).st ≠ .fuel) :
    ((refExecute cfg (envOf m) fuel root sc0).st = .ok →
      refExecute cfg (patchEval (envOf m) a sc r) fuel root sc0 = refExecute cfg (envOf m) fuel root sc0) ∧
    (refExecute cfg (envOf m) fuel root sc0).out <+: (refExecute cfg (patchEval (envOf m) a sc r) fuel root sc0).out :=
  output_is_prefix cfg (envOf m) _
    (envLe_patchEval (envOf m) a sc r c lg (attrEvaluate_block_fails m.cx sc a v i c lg hv hp hfail)) fuel root sc0 hf

/-- **C12, siblings.** In a sibling list `pre ++ node :: post` whose prefix `pre` renders successfully (result `p`) and
    whose element `node` is the failing `text` element: the result is the failure; the chunks are those of `pre`
    followed by the start tag of `node`, the events those of `pre` followed by those of the failed evaluation; the
    siblings `post` contribute NOTHING — no chunk, no event (they do not occur on the right-hand side). -/
theorem failure_stops_siblings_concrete (cfg : RN.Cfg) (m : Mgr) (node : Node) (a : CAttr) (attrs : List CAttr)
    (hs : Shape cfg node a attrs) (hk : classify cfg a = .text)
    (v : String) (i : Nat) (hv : a.value = some v) (hp : a.parts = blockParts i)
    (sc : List Val) (c : Cls) (lg : List String) (hfail : EvalFails m.cx sc m.cx.exprs[i]! c lg)
    (F depth : Nat) (nc : NC) (pre post : List Node)
    (hf : (refKids cfg (envOf m) F depth nc (pre ++ node :: post) sc).st ≠ .fuel)
    (hpre : (refKids cfg (envOf m) F depth nc pre sc).st = .ok) :
    let p := refKids cfg (envOf m) F depth nc pre sc
    refKids cfg (envOf m) F depth nc (pre ++ node :: post) sc =
      { st := .err c, out := p.out ++ [openTag node attrs], log := p.log ++ lg, nc := p.nc } := by
  intro p
  have hp0 : p = kidsRun (fun nc k => refNode cfg (envOf m) F depth nc k sc) nc pre :=
    refKids_unf cfg (envOf m) F depth nc pre sc (by rw [hpre]; simp)
  have hpre' : (kidsRun (fun nc k => refNode cfg (envOf m) F depth nc k sc) nc pre).st = .ok := by rw [← hp0]; exact hpre
  -- the failing element itself did not run out of fuel
  have hnf : (refNode cfg (envOf m) F depth p.nc node sc).st ≠ .fuel := by
    intro hfu
    apply hf
    rw [refKids_unf cfg (envOf m) F depth nc _ sc hf, kidsRun_append, Q.andThen_ok _ hpre', ← hp0]
    simp only [kidsRun]
    rw [Q.andThen_not_ok _ (by rw [hfu]; simp)]
    exact hfu
  have hq := failure_concrete cfg m node a attrs hs hk v i hv hp sc c lg hfail F depth p.nc hnf
  have h := error_stops_render cfg (envOf m) F depth nc sc pre post node hf hpre' (by rw [← hp0, hq]; simp)
  simp only [← hp0] at h
  rw [h, hq]

/-- … hence the result does not depend on what follows the failing element -/
theorem failure_siblings_indep_concrete (cfg : RN.Cfg) (m : Mgr) (node : Node) (a : CAttr) (attrs : List CAttr)
    (hs : Shape cfg node a attrs) (hk : classify cfg a = .text)
    (v : String) (i : Nat) (hv : a.value = some v) (hp : a.parts = blockParts i)
    (sc : List Val) (c : Cls) (lg : List String) (hfail : EvalFails m.cx sc m.cx.exprs[i]! c lg)
    (F depth : Nat) (nc : NC) (pre post post' : List Node)
    (hf : (refKids cfg (envOf m) F depth nc (pre ++ node :: post) sc).st ≠ .fuel)
    (hf' : (refKids cfg (envOf m) F depth nc (pre ++ node :: post') sc).st ≠ .fuel)
    (hpre : (refKids cfg (envOf m) F depth nc pre sc).st = .ok) :
    refKids cfg (envOf m) F depth nc (pre ++ node :: post) sc =
      refKids cfg (envOf m) F depth nc (pre ++ node :: post') sc := by
  rw [failure_stops_siblings_concrete cfg m node a attrs hs hk v i hv hp sc c lg hfail F depth nc pre post hf hpre,
    failure_stops_siblings_concrete cfg m node a attrs hs hk v i hv hp sc c lg hfail F depth nc pre post' hf' hpre]

/-- `failure_concrete` for the FAITHFUL model (hypotheses as in `insert_concrete_exec`): a finished `RN.exec` of the
    element has exactly this status, chunk and events, and restores the flags -/
theorem failure_concrete_exec (cfg : RN.Cfg) (m : Mgr) (htpl : TplOK cfg (envOf m))
    (node : Node) (a : CAttr) (post : List CAttr)
    (hs : Shape cfg node a post) (hk : classify cfg a = .text)
    (v : String) (i : Nat) (hv : a.value = some v) (hp : a.parts = blockParts i)
    (sc : List Val) (c : Cls) (lg : List String) (hfail : EvalFails m.cx sc m.cx.exprs[i]! c lg)
    (fuel depth : Nat) (nc : NC) (fl : Fl)
    (hu : Uniq node) (hso : Sorted cfg node) (hc : ClearOn fl (RN.ids node))
    (hne : (exec cfg (envOf m) fuel depth nc fl node sc).st ≠ .fuel) :
    (exec cfg (envOf m) fuel depth nc fl node sc).toQ =
      { st := .err c, out := [openTag node post], log := lg, nc := nc } ∧
    (exec cfg (envOf m) fuel depth nc fl node sc).fl = fl := by
  obtain ⟨⟨g, hg⟩, hfl⟩ := exec_refines_ref cfg (envOf m) htpl fuel depth nc fl node sc hu hso hc hne
  refine ⟨?_, hfl⟩
  rw [← hg]
  exact failure_concrete cfg m node a post hs hk v i hv hp sc c lg hfail g depth nc (by rw [hg]; exact hne)

/-! ## 4. non-vacuity: one loaded manager with two chains, an insert, a replace, an unknown name and three failing elements

All node shapes, table entries and evaluation outcomes are obtained from `EN.loadFiles` on the source text by kernel
evaluation (`demo_true`, one `decide +kernel`), through the Boolean checkers of `Proofs/ConcreteProofs.lean` §5
(`chainB`, `nonePrintsTrueB`, `condPrintsB`, `printsB`, `evalFailsB`, `shapeB`, each with a soundness lemma). Every
theorem above is then instantiated, and its prediction is set beside what the FAITHFUL model `RN.execute` / `RN.exec`
computes on the same manager. -/
namespace Demo

/-- user functions: the conditions are calls, so that every evaluation leaves an event -/
def fns : List (String × FnSpec) :=
  [("c1", { sig := "func() string", arity := 0, ret := .str "no" }),
   ("c2", { sig := "func() string", arity := 0, ret := .str "true" }),     -- the STRING "true"
   ("c3", { sig := "func() bool", arity := 0, ret := .bool true }),
   ("nm", { sig := "func() string", arity := 0, ret := .str "frag" }),
   ("fail", { sig := "func() (int, error)", arity := 0, ret := .int .int 0, second := some true })]

def files : List (String × String) :=
  [("lib", "<p :define=\"frag\"><b :text=\"${who}\">?</b>!</p>"),
   ("chain", "<a :if=\"${c1()}\">A</a> <b :else-if=\"${c2()}\">B</b>\n<c :else-if=\"${c3()}\">C</c><d :else>D</d>"),
   ("main", "<div class=\"k\" :insert=\"${nm()}\">old</div><span :replace=\"frag\">old</span>"),
   ("unk", "<q :replace=\"nope\">x</q>"),
   ("bad", "x<em :text=\"${fail()}\" id=\"e\">e</em><u>after</u>"),
   ("boom", "<i :text=\"${&who}\">q</i>!"),
   ("chainw", "<a :with=\"u := ${nm()}\" :if=\"${c1()}\">A</a><b :with=\"u := ${c2()}\" :else :text=\"${u}\">B</b>" ++
      "<c :with=\"u := ${c3()}\" :else>C</c>"),
   ("nofn", "<r :insert=\"${fail()}\">x</r>")]

def frame (kvs : List (String × Val)) : Val := .map "map[string]interface {}" kvs
def data : List Val :=
  [frame [("c1", .func "c1"), ("c2", .func "c2"), ("c3", .func "c3"), ("nm", .func "nm"), ("fail", .func "fail"),
    ("who", .str "<W>")], emptyMap]

def rc : RN.Cfg := rcfgOf {}
def tplOf (m : Mgr) (n : String) : Node := ((envOf m).tpl n).getD default
/-- the directive and the static attributes of an element of the form `Shape` -/
def dirOf (n : Node) : CAttr := n.d.attrs.headD default
def statOf (n : Node) : List CAttr := n.d.attrs.tail
def rIs (r : R) (st : Status) (out log : List String) : Bool := decide (r.st = st) && r.out == out && r.log == log
def qIs (q : Q) (st : Status) (out log : List String) : Bool := decide (q.st = st) && q.out == out && q.log == log
def hasTpl (m : Mgr) (n : String) : Bool := ((envOf m).tpl n).isSome
def isRoot (r : Node) : Bool := decide (r.d.kind = .root) && r.endVal == none

/-- the chain file: `c1()` prints `no`, `c2()` prints `true` (a string), `c3()` and the `else` are not reached -/
def chainFacts (m : Mgr) : Bool :=
  let r := tplOf m "chain"
  hasTpl m "chain" && isRoot r && r.kids.length == 6 && chainB rc r.kids &&
  r.kids.all (fun k => (withAttr rc k.d.attrs).isNone) &&
  nonePrintsTrueB rc m data (r.kids.take 2) && decide ((kid r 2).d.kind = .tag) &&
  condPrintsB rc m data (kid r 2) == some "true" &&
  (r.kids.drop 3).all (fun k => decide (k.d.kind = .tag) || k.kids.isEmpty) &&
  allWithB rc (envOf m) data (r.kids.drop 3) &&
  decide ((refKids rc (envOf m) 100 0 emptyNc r.kids data).st ≠ .fuel) &&
  decide ((execute rc (envOf m) 100 r data).st ≠ .fuel) &&
  rIs (execute rc (envOf m) 100 r data) .ok ["", "", " ", "<b>B</b>", "\n", "", ""] ["c1", "c2"] &&
  qIs (refKids rc (envOf m) 100 0 emptyNc r.kids data) .ok ["", " ", "<b>B</b>", "\n", "", ""] ["c1", "c2"] &&
  -- the sub-chain `<a :if="${c1()}">A</a> ` (for `chain_none_concrete`)
  chainB rc (r.kids.take 2) && decide ((refKids rc (envOf m) 100 0 emptyNc (r.kids.take 2) data).st ≠ .fuel) &&
  -- the value of `c2()` is a STRING
  (match evalExpr m.cx data m.cx.exprs[2]! with | (.ok (.str s), _) => s == "true" | _ => false) &&
  -- `<d :else>`: the literal `true`
  (condOf rc (kid r 5)).value.isSome && decide ((condOf rc (kid r 5)).parts = litParts "true")

/-- a chain with `with` attributes: `<a :with="u := ${nm()}" :if="${c1()}">A</a><b :with="u := ${c2()}" :else
    :text="${u}">B</b><c :with="u := ${c3()}" :else>C</c>` -/
def chainwFacts (m : Mgr) : Bool :=
  let r := tplOf m "chainw"
  hasTpl m "chainw" && isRoot r && r.kids.length == 3 && chainB rc r.kids &&
  nonePrintsTrueB rc m data (r.kids.take 1) && decide ((kid r 1).d.kind = .tag) &&
  condPrintsB rc m data (kid r 1) == some "true" && allWithB rc (envOf m) data (r.kids.drop 2) &&
  decide ((refKids rc (envOf m) 100 0 emptyNc r.kids data).st ≠ .fuel) &&
  decide ((execute rc (envOf m) 100 r data).st ≠ .fuel) &&
  rIs (execute rc (envOf m) 100 r data) .ok ["", "", "<b>true</b>", ""] ["nm", "c1", "c2", "c3"]

/-- insert (name computed by a block, one static attribute), replace (literal name), unknown name, a successful `text`
    element (inside the fragment), a fragment name that fails -/
def fragFacts (m : Mgr) : Bool :=
  let r := tplOf m "main"; let fr := tplOf m "frag"; let dv := kid r 0; let sp := kid r 1; let uq := kid (tplOf m "unk") 0
  let tb := kid fr 0; let nq := kid (tplOf m "nofn") 0
  hasTpl m "main" && hasTpl m "frag" && isRoot fr &&
  shapeB rc dv (dirOf dv) (statOf dv) && decide (classify rc (dirOf dv) = .insert) &&
  printsB m.cx data (dirOf dv) == some ("frag", ["nm"]) &&
  (dirOf dv).value.isSome && decide ((dirOf dv).parts = blockParts 4) &&
  shapeB rc sp (dirOf sp) (statOf sp) && decide (classify rc (dirOf sp) = .replace) &&
  printsB m.cx data (dirOf sp) == some ("frag", []) &&
  decide ((refNode rc (envOf m) 100 0 emptyNc dv data).st ≠ .fuel) &&
  decide ((refNode rc (envOf m) 100 0 emptyNc sp data).st ≠ .fuel) &&
  qIs (refKids rc (envOf m) 100 1 emptyNc fr.kids data) .ok ["<b>", "&lt;W&gt;", "</b>", "!"] [] &&
  openTag dv (statOf dv) == "<div class=\"k\">" && dv.endVal == some "</div>" &&
  rIs (execute rc (envOf m) 100 r data) .ok ["", "<div class=\"k\"><b>&lt;W&gt;</b>!", "</div>", "<b>&lt;W&gt;</b>!"] ["nm"] &&
  decide ((exec rc (envOf m) 100 0 emptyNc emptyFl dv data).st ≠ .fuel) &&
  rIs (exec rc (envOf m) 100 0 emptyNc emptyFl dv data) .ok ["<div class=\"k\"><b>&lt;W&gt;</b>!", "</div>"] ["nm"] &&
  rIs (exec rc (envOf m) 100 0 emptyNc emptyFl sp data) .ok ["<b>&lt;W&gt;</b>!"] [] &&
  shapeB rc uq (dirOf uq) (statOf uq) && decide (classify rc (dirOf uq) = .replace) &&
  printsB m.cx data (dirOf uq) == some ("nope", []) && !(names m.templates).contains "nope" &&
  decide ((refNode rc (envOf m) 100 0 emptyNc uq data).st ≠ .fuel) &&
  rIs (execute rc (envOf m) 100 (tplOf m "unk") data) (.err .tplNotFound) [""] [] &&
  shapeB rc tb (dirOf tb) (statOf tb) && decide (classify rc (dirOf tb) = .text) &&
  printsB m.cx data (dirOf tb) == some ("<W>", []) &&
  decide ((refNode rc (envOf m) 100 1 emptyNc tb data).st ≠ .fuel) &&
  openTag tb (statOf tb) == "<b>" && tb.endVal == some "</b>" &&
  shapeB rc nq (dirOf nq) (statOf nq) && decide (classify rc (dirOf nq) = .insert) &&
  (dirOf nq).value.isSome && decide ((dirOf nq).parts = blockParts 12) &&
  evalFailsB m.cx data m.cx.exprs[12]! == some (.eval true false, ["fail"]) &&
  decide ((refNode rc (envOf m) 100 0 emptyNc nq data).st ≠ .fuel) &&
  rIs (execute rc (envOf m) 100 (tplOf m "nofn") data) (.err (.eval true false)) [""] ["fail"]

/-- `fail()` returns an error (after being called), `&who` panics -/
def failFacts (m : Mgr) : Bool :=
  let r := tplOf m "bad"; let em := kid r 1; let rb := tplOf m "boom"; let it := kid rb 0
  hasTpl m "bad" && r.kids.length == 3 &&
  shapeB rc em (dirOf em) (statOf em) && decide (classify rc (dirOf em) = .text) &&
  (dirOf em).value.isSome && decide ((dirOf em).parts = blockParts 5) &&
  evalFailsB m.cx data m.cx.exprs[5]! == some (.eval true false, ["fail"]) &&
  openTag em (statOf em) == "<em id=\"e\">" &&
  decide ((refNode rc (envOf m) 100 0 emptyNc em data).st ≠ .fuel) &&
  decide ((refKids rc (envOf m) 100 0 emptyNc r.kids data).st ≠ .fuel) &&
  decide ((refExecute rc (envOf m) 100 r data).st ≠ .fuel) &&
  qIs (refKids rc (envOf m) 100 0 emptyNc (r.kids.take 1) data) .ok ["x"] [] &&
  rIs (execute rc (envOf m) 100 r data) (.err (.eval true false)) ["", "x", "<em id=\"e\">"] ["fail"] &&
  decide ((exec rc (envOf m) 100 0 emptyNc emptyFl em data).st ≠ .fuel) &&
  rIs (exec rc (envOf m) 100 0 emptyNc emptyFl em data) (.err (.eval true false)) ["<em id=\"e\">"] ["fail"] &&
  shapeB rc it (dirOf it) (statOf it) && decide (classify rc (dirOf it) = .text) &&
  (dirOf it).value.isSome && decide ((dirOf it).parts = blockParts 6) &&
  evalFailsB m.cx data m.cx.exprs[6]! == some (.eval false false, []) &&
  openTag it (statOf it) == "<i>" &&
  decide ((refNode rc (envOf m) 100 0 emptyNc it data).st ≠ .fuel) &&
  rIs (execute rc (envOf m) 100 rb data) (.err (.eval false false)) ["", "<i>"] [] &&
  -- `&who` PANICS (it does not merely record an error)
  (match (EV.eval m.cx.fns data m.cx.exprs[6]!).run {} with | .error _ => true | _ => false)

def demo : Bool :=
  match loadFiles {} fns files with
  | .ok m => chainFacts m && chainwFacts m && fragFacts m && failFacts m
  | _ => false

set_option maxRecDepth 100000 in
/-- the eight files load; all the facts above hold (kernel evaluation) -/
theorem demo_true : demo = true := by decide +kernel

/-- the loaded manager -/
def mm : Mgr := match loadFiles {} fns files with | .ok m => m | _ => emptyMgr {} []

theorem load_ok : loadFiles {} fns files = .ok mm := by
  have h := demo_true
  unfold demo at h
  unfold mm
  cases hl : loadFiles {} fns files <;> simp only [hl] at h ⊢ <;> cases h

theorem facts : chainFacts mm = true ∧ chainwFacts mm = true ∧ fragFacts mm = true ∧ failFacts mm = true := by
  have h := demo_true
  unfold demo at h
  rw [load_ok] at h
  simp only [Bool.and_eq_true] at h
  exact ⟨h.1.1.1, h.1.1.2, h.1.2, h.2⟩

theorem mm_tplOK : TplOK rc (envOf mm) := tplOK_of_inv {} mm (loaded_manager_ok _ _ _ _ load_ok).2
/-- the manager evaluates with the functions it was loaded with -/
theorem mm_fns : mm.cx.fns = fns := loadFiles_fns _ _ _ _ load_ok

theorem tpl_some {m : Mgr} {n : String} (h : hasTpl m n = true) : (envOf m).tpl n = some (tplOf m n) := by
  unfold hasTpl at h
  unfold tplOf
  cases ht : (envOf m).tpl n with
  | none => rw [ht] at h; cases h
  | some r => rfl

theorem isRoot_iff {r : Node} (h : isRoot r = true) : r.d.kind = .root ∧ r.endVal = none := by
  simp only [isRoot, Bool.and_eq_true, decide_eq_true_eq, beq_iff_eq] at h
  exact h

theorem qIs_iff {q : Q} {st : Status} {out log : List String} (h : qIs q st out log = true) :
    q.st = st ∧ q.out = out ∧ q.log = log := by
  simp only [qIs, Bool.and_eq_true, decide_eq_true_eq, beq_iff_eq] at h
  exact ⟨h.1.1, h.1.2, h.2⟩

theorem rIs_iff {r : R} {st : Status} {out log : List String} (h : rIs r st out log = true) :
    r.st = st ∧ r.out = out ∧ r.log = log := by
  simp only [rIs, Bool.and_eq_true, decide_eq_true_eq, beq_iff_eq] at h
  exact ⟨h.1.1, h.1.2, h.2⟩

/-! ### the nodes of the loaded templates -/

def rChain : Node := tplOf mm "chain"
def rMain : Node := tplOf mm "main"
def rFrag : Node := tplOf mm "frag"
def rBad : Node := tplOf mm "bad"
/-- `<div class="k" :insert="frag">old</div>` -/
def nDiv : Node := kid rMain 0
/-- `<span :replace="${nm()}">old</span>` -/
def nSpan : Node := kid rMain 1
/-- `<q :replace="nope">x</q>` -/
def nUnk : Node := kid (tplOf mm "unk") 0
/-- `<em :text="${fail()}" id="e">e</em>` -/
def nEm : Node := kid rBad 1
/-- `<i :text="${&who}">q</i>` -/
def nI : Node := kid (tplOf mm "boom") 0

/-! ### the chain -/

/-- everything `chain_concrete…` asks of the chain file `<a :if="${c1()}">A</a> <b :else-if="${c2()}">B</b>⏎<c
    :else-if="${c3()}">C</c><d :else>D</d>`: `pre` = `<a>`, blank; `e` = `<b>`; `post` = newline, `<c>`, `<d>` -/
theorem chain_hyps :
    (envOf mm).tpl "chain" = some rChain ∧ rChain.d.kind = .root ∧ rChain.endVal = none ∧
    rChain.kids = rChain.kids.take 2 ++ kid rChain 2 :: rChain.kids.drop 3 ∧
    Chain rc (rChain.kids.take 2 ++ kid rChain 2 :: rChain.kids.drop 3) ∧
    NoWith rc (rChain.kids.take 2 ++ kid rChain 2 :: rChain.kids.drop 3) ∧
    NonePrintsTrue rc mm data (rChain.kids.take 2) ∧ (kid rChain 2).d.kind = .tag ∧
    CondPrints rc mm data (kid rChain 2) "true" ∧
    (∀ k ∈ rChain.kids.drop 3, k.d.kind ≠ .tag → k.kids = []) ∧ AllWith rc (envOf mm) data (rChain.kids.drop 3) ∧
    (refKids rc (envOf mm) 100 0 emptyNc (rChain.kids.take 2 ++ kid rChain 2 :: rChain.kids.drop 3) data).st ≠ .fuel ∧
    (execute rc (envOf mm) 100 rChain data).st ≠ .fuel := by
  have h := facts.1
  simp only [chainFacts, Bool.and_eq_true, decide_eq_true_eq, beq_iff_eq, List.all_eq_true, Option.isNone_iff_eq_none,
    Bool.or_eq_true, List.isEmpty_iff, and_assoc] at h
  obtain ⟨h1, h2, h3, h4, h5, h6, h7, h8, h9, h10, h11, h12, _, _, _, _, _, _, _⟩ := h
  unfold rChain
  have hsplit : (tplOf mm "chain").kids =
      (tplOf mm "chain").kids.take 2 ++ kid (tplOf mm "chain") 2 :: (tplOf mm "chain").kids.drop 3 :=
    kids_split (by rw [h3]; decide)
  refine ⟨tpl_some h1, (isRoot_iff h2).1, (isRoot_iff h2).2, hsplit, ?_, ?_, nonePrintsTrue_of_B h6, h7, condPrints_of_B h8,
    ?_, allWith_of_B h10, ?_, h12⟩
  · rw [← hsplit]; exact chain_of_B h4
  · intro k hk; rw [← hsplit] at hk; exact h5 k hk
  · intro k hk hnt; rcases h9 k hk with h | h
    · exact absurd h hnt
    · exact h
  · rw [← hsplit]; exact h11

/-- the body of the selected element `<b>` -/
def chainBody : Q :=
  refRest rc (envOf mm) (100 - 1) 0 (setNc (ncMark false emptyNc (rChain.kids.take 2)) (kid rChain 2).d.id true)
    (kid rChain 2) data

/-- **`chain_concrete_nowith` on the loaded chain**: `c1()` prints `no`, `c2()` prints the STRING `true`: exactly the
    body of `<b>` is rendered; the log has the events of `c1()`, `c2()` and of the body — `c3()` is not called -/
theorem chain_demo :
    refKids rc (envOf mm) 100 0 emptyNc rChain.kids data =
      if chainBody.st = .ok then
        { st := .ok,
          out := (rChain.kids.take 2).flatMap sibChunks ++
            ([String.join chainBody.out] ++ (rChain.kids.drop 3).flatMap sibChunks),
          log := (rChain.kids.take 2).flatMap (condLog rc mm data) ++ (condLog rc mm data (kid rChain 2) ++ chainBody.log),
          nc := ncMark true chainBody.nc (rChain.kids.drop 3) }
      else
        { st := chainBody.st, out := (rChain.kids.take 2).flatMap sibChunks,
          log := (rChain.kids.take 2).flatMap (condLog rc mm data) ++ (condLog rc mm data (kid rChain 2) ++ chainBody.log),
          nc := chainBody.nc } := by
  obtain ⟨_, _, _, hsplit, hch, hnw, hpre, hk, he, hpost, _, hf, _⟩ := chain_hyps
  have := chain_concrete_nowith rc mm 100 0 emptyNc data _ _ _ hch hf hnw hpre hk he hpost
  rw [← hsplit] at this
  exact this

/-- … and what the specification and the faithful model compute on it (kernel evaluation): after the root's `""` the
    chunks `""`, `" "`, `<b>B</b>`, `"\n"`, `""`, `""`; the events `c1`, `c2` — no `c3` -/
theorem chain_computed :
    (refKids rc (envOf mm) 100 0 emptyNc rChain.kids data).st = .ok ∧
    (refKids rc (envOf mm) 100 0 emptyNc rChain.kids data).out = ["", " ", "<b>B</b>", "\n", "", ""] ∧
    (refKids rc (envOf mm) 100 0 emptyNc rChain.kids data).log = ["c1", "c2"] ∧
    (execute rc (envOf mm) 100 rChain data).st = .ok ∧
    (execute rc (envOf mm) 100 rChain data).out = ["", "", " ", "<b>B</b>", "\n", "", ""] ∧
    (execute rc (envOf mm) 100 rChain data).log = ["c1", "c2"] := by
  have h := facts.1
  simp only [chainFacts, Bool.and_eq_true, and_assoc] at h
  obtain ⟨_, _, _, _, _, _, _, _, _, _, _, _, h13, h14, _, _, _, _, _⟩ := h
  obtain ⟨a1, a2, a3⟩ := qIs_iff h14
  obtain ⟨b1, b2, b3⟩ := rIs_iff h13
  exact ⟨a1, a2, a3, b1, b2, b3⟩

/-- (stated for abstract results, so that nothing is evaluated when it is applied) -/
theorem st_ok_of_ite {q body A : Q} {o l : List String} {n : NC}
    (h : q = if body.st = .ok then A else { st := body.st, out := o, log := l, nc := n }) (hq : q.st = .ok) :
    body.st = .ok := by
  by_cases hb : body.st = .ok
  · exact hb
  · rw [if_neg hb] at h; rw [h] at hq; exact hq

/-- consequently the selected body succeeded -/
theorem chain_body_ok : chainBody.st = .ok := st_ok_of_ite chain_demo chain_computed.1

/-- the hypotheses of `chain_concrete` and of `chain_concrete_execute` (loaded manager, root = the chain) are satisfiable -/
example : True := by
  obtain ⟨hr, hroot, hend, hsplit, hch, hnw, hpre, hk, he, hpost, hpostW, hf, hne⟩ := chain_hyps
  have t1 := chain_concrete rc mm 100 0 emptyNc data _ _ _ hch hf hpre hk he hpostW
  have t2 := chain_concrete_execute {} fns files mm load_ok "chain" _ hr hroot hend _ _ _ hsplit hch data hpre hk he hpostW
    100 hne
  trivial
/-- further facts about the chain file: the sub-chain `<a :if="${c1()}">A</a> ` (no condition prints `true`); the value of
    `c2()` is the STRING `"true"` (not a boolean) — and `<b>` was selected; `<d :else>` carries the literal `true` -/
theorem chain_hyps2 :
    Chain rc (rChain.kids.take 2) ∧ (refKids rc (envOf mm) 100 0 emptyNc (rChain.kids.take 2) data).st ≠ .fuel ∧
    (∃ lg, evalExpr mm.cx data mm.cx.exprs[2]! = (.ok (.str "true"), lg)) ∧
    withAttr rc (kid rChain 5).d.attrs = none ∧ (∃ v, (condOf rc (kid rChain 5)).value = some v) ∧
    (condOf rc (kid rChain 5)).parts = litParts "true" := by
  have h := facts.1
  simp only [chainFacts, Bool.and_eq_true, decide_eq_true_eq, beq_iff_eq, List.all_eq_true, Option.isNone_iff_eq_none,
    Bool.or_eq_true, List.isEmpty_iff, and_assoc, Option.isSome_iff_exists] at h
  obtain ⟨_, _, h3, _, h5, _, _, _, _, _, _, _, _, _, h15, h16, h17, h18, h19⟩ := h
  unfold rChain
  refine ⟨chain_of_B h15, h16, ?_, ?_, h18, h19⟩
  · split at h17
    · rename_i s lg heq
      have : s = "true" := by simpa using h17
      subst this
      exact ⟨lg, heq⟩
    · cases h17
  · apply h5
    rw [kids_split (r := tplOf mm "chain") (i := 5) (by rw [h3]; decide)]
    simp

/-- the hypotheses of `chain_none_concrete` (on the sub-chain), of `condPrints_lit` (on `<d :else>`) and of
    `condition_on_printed_value` are satisfiable -/
example : True := by
  obtain ⟨hch2, hf2, _, hw, ⟨v, hv⟩, hp⟩ := chain_hyps2
  obtain ⟨_, _, _, _, _, _, hpre, _⟩ := chain_hyps
  have t1 := chain_none_concrete rc mm 100 0 emptyNc data _ hch2 hf2 hpre
  have t2 := condPrints_lit rc mm data (kid rChain 5) v "true" hw hv hp
  trivial

/-! ### a chain whose elements carry `with` -/

def rChainW : Node := tplOf mm "chainw"

theorem chainw_hyps :
    (envOf mm).tpl "chainw" = some rChainW ∧ rChainW.d.kind = .root ∧ rChainW.endVal = none ∧
    rChainW.kids = rChainW.kids.take 1 ++ kid rChainW 1 :: rChainW.kids.drop 2 ∧
    Chain rc (rChainW.kids.take 1 ++ kid rChainW 1 :: rChainW.kids.drop 2) ∧
    NonePrintsTrue rc mm data (rChainW.kids.take 1) ∧ (kid rChainW 1).d.kind = .tag ∧
    CondPrints rc mm data (kid rChainW 1) "true" ∧ AllWith rc (envOf mm) data (rChainW.kids.drop 2) ∧
    (refKids rc (envOf mm) 100 0 emptyNc (rChainW.kids.take 1 ++ kid rChainW 1 :: rChainW.kids.drop 2) data).st ≠ .fuel ∧
    (execute rc (envOf mm) 100 rChainW data).st ≠ .fuel := by
  have h := facts.2.1
  simp only [chainwFacts, Bool.and_eq_true, decide_eq_true_eq, beq_iff_eq, and_assoc] at h
  obtain ⟨h1, h2, h3, h4, h5, h6, h7, h8, h9, h10, _⟩ := h
  unfold rChainW
  have hsplit : (tplOf mm "chainw").kids =
      (tplOf mm "chainw").kids.take 1 ++ kid (tplOf mm "chainw") 1 :: (tplOf mm "chainw").kids.drop 2 :=
    kids_split (by rw [h3]; decide)
  refine ⟨tpl_some h1, (isRoot_iff h2).1, (isRoot_iff h2).2, hsplit, ?_, nonePrintsTrue_of_B h5, h6, condPrints_of_B h7,
    allWith_of_B h8, ?_, h10⟩
  · rw [← hsplit]; exact chain_of_B h4
  · rw [← hsplit]; exact h9

/-- **`chain_concrete` / `chain_concrete_execute` with `with` attributes**: the hypotheses are satisfiable; the faithful
    model prints `<b>true</b>` (the `else` element, whose `with` bound `u` to the value of `c2()`), and the events are
    `nm` (with of `<a>`), `c1` (its condition), `c2` (with of `<b>`; its condition is a literal), and `c3` — the WITH of
    the unselected `<c>`, which is evaluated although its condition is not -/
theorem chainw_demo :
    (execute rc (envOf mm) 100 rChainW data).st = .ok ∧
    (execute rc (envOf mm) 100 rChainW data).out = ["", "", "<b>true</b>", ""] ∧
    (execute rc (envOf mm) 100 rChainW data).log = ["nm", "c1", "c2", "c3"] := by
  have h := facts.2.1
  simp only [chainwFacts, Bool.and_eq_true, and_assoc] at h
  obtain ⟨_, _, _, _, _, _, _, _, _, _, h11⟩ := h
  unfold rChainW
  exact rIs_iff h11

example : True := by
  obtain ⟨hr, hroot, hend, hsplit, hch, hpre, hk, he, hpostW, hf, hne⟩ := chainw_hyps
  have t1 := chain_concrete rc mm 100 0 emptyNc data _ _ _ hch hf hpre hk he hpostW
  have t2 := chain_concrete_execute {} fns files mm load_ok "chainw" _ hr hroot hend _ _ _ hsplit hch data hpre hk he hpostW
    100 hne
  trivial

/-! ### insert, replace, unknown name, `text`, failing fragment name -/

/-- `<b :text="${who}">?</b>` (first child of the fragment) -/
def nB : Node := kid rFrag 0
/-- `<r :insert="${fail()}">x</r>` -/
def nR : Node := kid (tplOf mm "nofn") 0

theorem frag_hyps :
    (envOf mm).tpl "main" = some rMain ∧
    (envOf mm).tpl "frag" = some rFrag ∧ rFrag.d.kind = .root ∧ rFrag.endVal = none ∧
    Shape rc nDiv (dirOf nDiv) (statOf nDiv) ∧ classify rc (dirOf nDiv) = .insert ∧
    Prints mm.cx data (dirOf nDiv) "frag" ["nm"] ∧ (∃ v, (dirOf nDiv).value = some v) ∧ (dirOf nDiv).parts = blockParts 4 ∧
    Shape rc nSpan (dirOf nSpan) (statOf nSpan) ∧ classify rc (dirOf nSpan) = .replace ∧
    Prints mm.cx data (dirOf nSpan) "frag" [] ∧
    (refNode rc (envOf mm) 100 0 emptyNc nDiv data).st ≠ .fuel ∧
    (refNode rc (envOf mm) 100 0 emptyNc nSpan data).st ≠ .fuel ∧
    qIs (refKids rc (envOf mm) 100 1 emptyNc rFrag.kids data) .ok ["<b>", "&lt;W&gt;", "</b>", "!"] [] = true ∧
    openTag nDiv (statOf nDiv) = "<div class=\"k\">" ∧ nDiv.endVal = some "</div>" ∧
    (exec rc (envOf mm) 100 0 emptyNc emptyFl nDiv data).st ≠ .fuel := by
  have h := facts.2.2.1
  simp only [fragFacts, Bool.and_eq_true, decide_eq_true_eq, beq_iff_eq, Bool.not_eq_true', and_assoc,
    Option.isSome_iff_exists] at h
  obtain ⟨h1, h2, h3, h4, h5, h6, h7, h8, h9, h10, h11, h12, h13, h14, h15, h16, _, h18, _, _, _, _, _, _, _, _, _, _, _, _, _, _, _, _, _, _, _, _, _⟩ := h
  unfold nDiv nSpan rMain rFrag
  exact ⟨tpl_some h1, tpl_some h2, (isRoot_iff h3).1, (isRoot_iff h3).2, shape_of_B h4, h5, prints_of_B h6, h7, h8,
    shape_of_B h9, h10, prints_of_B h11, h12, h13, h14, h15, h16, h18⟩

theorem frag_hyps2 :
    Shape rc nUnk (dirOf nUnk) (statOf nUnk) ∧ classify rc (dirOf nUnk) = .replace ∧
    Prints mm.cx data (dirOf nUnk) "nope" [] ∧ "nope" ∉ names mm.templates ∧
    (refNode rc (envOf mm) 100 0 emptyNc nUnk data).st ≠ .fuel ∧
    Shape rc nB (dirOf nB) (statOf nB) ∧ classify rc (dirOf nB) = .text ∧ Prints mm.cx data (dirOf nB) "<W>" [] ∧
    (refNode rc (envOf mm) 100 1 emptyNc nB data).st ≠ .fuel ∧ openTag nB (statOf nB) = "<b>" ∧ nB.endVal = some "</b>" ∧
    Shape rc nR (dirOf nR) (statOf nR) ∧ classify rc (dirOf nR) = .insert ∧
    (∃ v, (dirOf nR).value = some v) ∧ (dirOf nR).parts = blockParts 12 ∧
    EvalFails mm.cx data mm.cx.exprs[12]! (.eval true false) ["fail"] ∧
    (refNode rc (envOf mm) 100 0 emptyNc nR data).st ≠ .fuel := by
  have h := facts.2.2.1
  simp only [fragFacts, Bool.and_eq_true, decide_eq_true_eq, beq_iff_eq, Bool.not_eq_true', and_assoc,
    Option.isSome_iff_exists] at h
  obtain ⟨_, _, _, _, _, _, _, _, _, _, _, _, _, _, _, _, _, _, _, _, h21, h22, h23, h24, h25, _, h27, h28, h29, h30, h31, h32, h33, h34, h35, h36, h37, h38, _⟩ := h
  unfold nUnk nB nR rFrag
  exact ⟨shape_of_B h21, h22, prints_of_B h23, by simpa using h24, h25, shape_of_B h27, h28, prints_of_B h29, h30, h31, h32,
    shape_of_B h33, h34, h35, h36, evalFails_of_B h37, h38⟩

/-- (abstract) the wrapped result of `insert_concrete` once the rendering `K` of the fragment's children is known -/
theorem wrap_result {q K E : Q} {ot e : String} {ev : Option String} {lg o l : List String} {nc : NC}
    (h : q = if K.st = .ok then
      { st := .ok, out := [ot ++ String.join K.out] ++ endChunks ev false, log := lg ++ K.log, nc := nc } else E)
    (h1 : K.st = .ok ∧ K.out = o ∧ K.log = l) (h4 : ev = some e) :
    q = { st := .ok, out := [ot ++ String.join o, e], log := lg ++ l, nc := nc } := by
  rw [h, if_pos h1.1, h1.2.1, h1.2.2, h4]; rfl

/-- (abstract) the same for `replace_concrete` -/
theorem subst_result {q K E : Q} {lg o l : List String} {nc : NC}
    (h : q = if K.st = .ok then { st := .ok, out := [String.join K.out], log := lg ++ K.log, nc := nc } else E)
    (h1 : K.st = .ok ∧ K.out = o ∧ K.log = l) :
    q = { st := .ok, out := [String.join o], log := lg ++ l, nc := nc } := by
  rw [h, if_pos h1.1, h1.2.1, h1.2.2]

theorem frag_text : "<div class=\"k\">" ++ String.join ["<b>", "&lt;W&gt;", "</b>", "!"] = "<div class=\"k\"><b>&lt;W&gt;</b>!" ∧
    String.join ["<b>", "&lt;W&gt;", "</b>", "!"] = "<b>&lt;W&gt;</b>!" ∧ RN.escapeHtml "<W>" = "&lt;W&gt;" := by
  decide +kernel

/-- **`insert_concrete` on `<div class="k" :insert="${nm()}">old</div>`**: the name is the printed value of `nm()` (event
    `nm`); the element is `<div class="k">` ++ the rendering of the children of the fragment `frag`
    (`<b :text="${who}">?</b>!` with `who = "<W>"` from the CALL-SITE scope) ++ `</div>`; `old` is not rendered -/
theorem insert_demo : refNode rc (envOf mm) 100 0 emptyNc nDiv data =
    { st := .ok, out := ["<div class=\"k\"><b>&lt;W&gt;</b>!", "</div>"], log := ["nm"] ++ [], nc := emptyNc } := by
  obtain ⟨_, hT, hroot, hend, hs, hk, hname, _, _, _, _, _, hf, _, hK, hopen, hev, _⟩ := frag_hyps
  obtain ⟨_, h⟩ := insert_concrete rc mm nDiv _ _ hs hk data "frag" ["nm"] hname rFrag hT hroot hend 100 0 emptyNc
    (by decide) hf
  simp only [Nat.zero_add] at h
  have := wrap_result h (qIs_iff hK) hev
  rw [hopen, frag_text.1] at this
  exact this

/-- **`replace_concrete` on `<span :replace="frag">old</span>`**: the element is substituted by the fragment's rendering -/
theorem replace_demo : refNode rc (envOf mm) 100 0 emptyNc nSpan data =
    { st := .ok, out := ["<b>&lt;W&gt;</b>!"], log := [] ++ [], nc := emptyNc } := by
  obtain ⟨_, hT, hroot, hend, _, _, _, _, _, hs, hk, hname, _, hf, hK, _⟩ := frag_hyps
  obtain ⟨_, h⟩ := replace_concrete rc mm nSpan _ _ hs hk data "frag" [] hname rFrag hT hroot hend 100 0 emptyNc
    (by decide) hf
  simp only [Nat.zero_add] at h
  have := subst_result h (qIs_iff hK)
  rw [frag_text.2.1] at this
  exact this

/-- **`unknown_name_concrete` on `<q :replace="nope">x</q>`** -/
theorem unknown_demo : refNode rc (envOf mm) 100 0 emptyNc nUnk data =
    { st := .err .tplNotFound, out := [], log := [], nc := emptyNc } := by
  obtain ⟨hs, hk, hname, hT, hf, _⟩ := frag_hyps2
  exact unknown_name_concrete rc mm nUnk _ _ hs (.inr hk) data "nope" [] hname hT 100 0 emptyNc hf

/-- **`text_concrete` on `<b :text="${who}">?</b>`** (inside the fragment, one level deeper): the value is escaped, `?`
    is not rendered -/
theorem text_demo : refNode rc (envOf mm) 100 1 emptyNc nB data =
    { st := .ok, out := ["<b>", "&lt;W&gt;", "</b>"], log := [], nc := emptyNc } := by
  obtain ⟨_, _, _, _, _, hs, hk, hp, hf, hopen, hev, _⟩ := frag_hyps2
  have := text_concrete rc mm nB _ _ hs hk data "<W>" [] hp 100 1 emptyNc hf
  rw [hopen, hev, frag_text.2.2] at this
  exact this

/-- **`fragment_name_fails_concrete` on `<r :insert="${fail()}">x</r>`**: the failure of the name, nothing written -/
theorem name_fails_demo : refNode rc (envOf mm) 100 0 emptyNc nR data =
    { st := .err (.eval true false), out := [], log := ["fail"], nc := emptyNc } := by
  obtain ⟨_, _, _, _, _, _, _, _, _, _, _, hs, hk, ⟨v, hv⟩, hp, hfail, hf⟩ := frag_hyps2
  exact fragment_name_fails_concrete rc mm nR _ _ hs (.inl hk) v 12 hv hp data _ _ hfail 100 0 emptyNc hf

/-- the hypotheses of `insert_concrete_node`, `insert_concrete_block`, `replace_concrete_node` (and of
    `condition_on_printed_value`, for the block of the `insert` attribute) are satisfiable -/
example : True := by
  obtain ⟨_, hT, hroot, hend, hs, hk, hname, ⟨v, hv⟩, hp, hs', hk', hname', hf, hf', _⟩ := frag_hyps
  obtain ⟨x, he, hfm⟩ := Prints.block_inv hname hp
  have t1 := insert_concrete_node rc mm nDiv _ _ hs hk data "frag" ["nm"] hname rFrag hT 100 0 emptyNc (by decide) hf
  have t2 := insert_concrete_block rc mm nDiv _ _ hs hk v 4 hv hp data x "frag" ["nm"] he hfm rFrag hT hroot hend 100 0
    emptyNc (by decide) hf
  have t3 := replace_concrete_node rc mm nSpan _ _ hs' hk' data "frag" [] hname' rFrag hT 100 0 emptyNc (by decide) hf'
  have t4 := condition_on_printed_value mm.cx data (dirOf nDiv) v 4 x ["nm"] hv hp he
  trivial

/-- **`insert_concrete_exec`**: the faithful model on the same element, derived from the theorem (the fragment's children
    rendered at the specification fuel `g` that the refinement provides agree with their rendering at fuel 100) -/
theorem insert_exec_demo : (exec rc (envOf mm) 100 0 emptyNc emptyFl nDiv data).toQ =
    { st := .ok, out := ["<div class=\"k\"><b>&lt;W&gt;</b>!", "</div>"], log := ["nm"] ++ [], nc := emptyNc } := by
  obtain ⟨hr, hT, hroot, hend, hs, hk, hname, _, _, _, _, _, _, _, hK, hopen, hev, hne⟩ := frag_hyps
  obtain ⟨hu, hso⟩ := kid_ok (mm_tplOK "main" rMain hr).1 (mm_tplOK "main" rMain hr).2 hs.kind
  obtain ⟨⟨g, hKg, h⟩, _⟩ := insert_concrete_exec rc mm mm_tplOK nDiv _ _ hs hk data "frag" ["nm"] hname rFrag hT hroot hend
    100 0 emptyNc emptyFl (by decide) hu hso (fun _ _ => rfl) hne
  simp only [Nat.zero_add] at h hKg
  rw [refKids_fuel_irrel rc (envOf mm) g 100 1 emptyNc rFrag.kids data hKg (by rw [(qIs_iff hK).1]; simp)] at h
  have := wrap_result h (qIs_iff hK) hev
  rw [hopen, frag_text.1] at this
  exact this

/-- … and what the faithful model computes (kernel evaluation): the same chunks; the whole files `main`, `unk`, `nofn` -/
theorem frag_computed :
    (exec rc (envOf mm) 100 0 emptyNc emptyFl nDiv data).out = ["<div class=\"k\"><b>&lt;W&gt;</b>!", "</div>"] ∧
    (exec rc (envOf mm) 100 0 emptyNc emptyFl nDiv data).log = ["nm"] ∧
    (exec rc (envOf mm) 100 0 emptyNc emptyFl nSpan data).out = ["<b>&lt;W&gt;</b>!"] ∧
    (exec rc (envOf mm) 100 0 emptyNc emptyFl nSpan data).log = [] ∧
    (execute rc (envOf mm) 100 rMain data).st = .ok ∧
    (execute rc (envOf mm) 100 rMain data).out = ["", "<div class=\"k\"><b>&lt;W&gt;</b>!", "</div>", "<b>&lt;W&gt;</b>!"] ∧
    (execute rc (envOf mm) 100 rMain data).log = ["nm"] ∧
    (execute rc (envOf mm) 100 (tplOf mm "unk") data).st = .err .tplNotFound ∧
    (execute rc (envOf mm) 100 (tplOf mm "unk") data).out = [""] ∧
    (execute rc (envOf mm) 100 (tplOf mm "nofn") data).st = .err (.eval true false) ∧
    (execute rc (envOf mm) 100 (tplOf mm "nofn") data).out = [""] ∧
    (execute rc (envOf mm) 100 (tplOf mm "nofn") data).log = ["fail"] := by
  have h := facts.2.2.1
  simp only [fragFacts, Bool.and_eq_true, and_assoc] at h
  obtain ⟨_, _, _, _, _, _, _, _, _, _, _, _, _, _, _, _, h17, _, h19, h20, _, _, _, _, _, h26, _, _, _, _, _, _, _, _, _, _, _, _, h39⟩ := h
  unfold nDiv nSpan rMain
  exact ⟨(rIs_iff h19).2.1, (rIs_iff h19).2.2, (rIs_iff h20).2.1, (rIs_iff h20).2.2, (rIs_iff h17).1, (rIs_iff h17).2.1,
    (rIs_iff h17).2.2, (rIs_iff h26).1, (rIs_iff h26).2.1, (rIs_iff h39).1, (rIs_iff h39).2.1, (rIs_iff h39).2.2⟩

/-! ### failing `text` elements -/

theorem fail_hyps :
    (envOf mm).tpl "bad" = some rBad ∧
    rBad.kids = rBad.kids.take 1 ++ nEm :: rBad.kids.drop 2 ∧
    Shape rc nEm (dirOf nEm) (statOf nEm) ∧ classify rc (dirOf nEm) = .text ∧
    (∃ v, (dirOf nEm).value = some v) ∧ (dirOf nEm).parts = blockParts 5 ∧
    EvalFails mm.cx data mm.cx.exprs[5]! (.eval true false) ["fail"] ∧
    openTag nEm (statOf nEm) = "<em id=\"e\">" ∧
    (refNode rc (envOf mm) 100 0 emptyNc nEm data).st ≠ .fuel ∧
    (refKids rc (envOf mm) 100 0 emptyNc (rBad.kids.take 1 ++ nEm :: rBad.kids.drop 2) data).st ≠ .fuel ∧
    (refExecute rc (envOf mm) 100 rBad data).st ≠ .fuel ∧
    qIs (refKids rc (envOf mm) 100 0 emptyNc (rBad.kids.take 1) data) .ok ["x"] [] = true ∧
    (exec rc (envOf mm) 100 0 emptyNc emptyFl nEm data).st ≠ .fuel ∧
    Shape rc nI (dirOf nI) (statOf nI) ∧ classify rc (dirOf nI) = .text ∧
    (∃ v, (dirOf nI).value = some v) ∧ (dirOf nI).parts = blockParts 6 ∧
    EvalFails mm.cx data mm.cx.exprs[6]! (.eval false false) [] ∧
    openTag nI (statOf nI) = "<i>" ∧
    (refNode rc (envOf mm) 100 0 emptyNc nI data).st ≠ .fuel ∧
    (EV.eval mm.cx.fns data mm.cx.exprs[6]!).run {} = .error () := by
  have h := facts.2.2.2
  simp only [failFacts, Bool.and_eq_true, decide_eq_true_eq, beq_iff_eq, and_assoc, Option.isSome_iff_exists] at h
  obtain ⟨h1, h2, h3, h4, h5, h6, h7, h8, h9, h10, h11, h12, _, h14, _, h16, h17, h18, h19, h20, h21, h22, _, h24⟩ := h
  unfold nEm nI rBad
  have hsplit : (tplOf mm "bad").kids =
      (tplOf mm "bad").kids.take 1 ++ kid (tplOf mm "bad") 1 :: (tplOf mm "bad").kids.drop 2 :=
    kids_split (by rw [h2]; decide)
  refine ⟨tpl_some h1, hsplit, shape_of_B h3, h4, h5, h6, evalFails_of_B h7, h8, h9, ?_, h11, h12, h14, shape_of_B h16, h17,
    h18, h19, evalFails_of_B h20, h21, h22, ?_⟩
  · rw [← hsplit]; exact h10
  · cases hr : (EV.eval mm.cx.fns data mm.cx.exprs[6]!).run {} with
    | error u => rfl
    | ok p => rw [hr] at h24; cases h24

/-- **`failure_concrete` on `<em :text="${fail()}" id="e">e</em>`**: `fail()` is called and returns an error: status
    `.err (.eval true false)` (sentinel), the start tag has been written, nothing else; the event is the call -/
theorem failure_demo : refNode rc (envOf mm) 100 0 emptyNc nEm data =
    { st := .err (.eval true false), out := ["<em id=\"e\">"], log := ["fail"], nc := emptyNc } := by
  obtain ⟨_, _, hs, hk, ⟨v, hv⟩, hp, hfail, hopen, hf, _⟩ := fail_hyps
  have := failure_concrete rc mm nEm _ _ hs hk v 5 hv hp data _ _ hfail 100 0 emptyNc hf
  rw [hopen] at this
  exact this

/-- **`failure_concrete` (panic) on `<i :text="${&who}">q</i>`**: `.err (.eval false false)`, no events -/
theorem panic_demo : refNode rc (envOf mm) 100 0 emptyNc nI data =
    { st := .err (.eval false false), out := ["<i>"], log := [], nc := emptyNc } := by
  obtain ⟨_, _, _, _, _, _, _, _, _, _, _, _, _, hs, hk, ⟨v, hv⟩, hp, hfail, hopen, hf, _⟩ := fail_hyps
  have := failure_concrete rc mm nI _ _ hs hk v 6 hv hp data _ _ hfail 100 0 emptyNc hf
  rw [hopen] at this
  exact this

/-- **`failure_stops_siblings_concrete` on `x<em :text="${fail()}" id="e">e</em><u>after</u>`**: the text `x`, the start
    tag of `<em>`, then nothing: `<u>after</u>` contributes no chunk and no event -/
theorem siblings_demo : refKids rc (envOf mm) 100 0 emptyNc rBad.kids data =
    { st := .err (.eval true false), out := ["x"] ++ ["<em id=\"e\">"], log := [] ++ ["fail"],
      nc := (refKids rc (envOf mm) 100 0 emptyNc (rBad.kids.take 1) data).nc } := by
  obtain ⟨_, hsplit, hs, hk, ⟨v, hv⟩, hp, hfail, hopen, _, hf, _, hpre, _⟩ := fail_hyps
  have := failure_stops_siblings_concrete rc mm nEm _ _ hs hk v 5 hv hp data _ _ hfail 100 0 emptyNc _ _ hf
    (qIs_iff hpre).1
  dsimp only at this
  rw [← hsplit, hopen, (qIs_iff hpre).2.1, (qIs_iff hpre).2.2] at this
  exact this

/-- **`failure_concrete_exec`**: the faithful model on the failing element -/
theorem failure_exec_demo : (exec rc (envOf mm) 100 0 emptyNc emptyFl nEm data).toQ =
    { st := .err (.eval true false), out := ["<em id=\"e\">"], log := ["fail"], nc := emptyNc } := by
  obtain ⟨hr, _, hs, hk, ⟨v, hv⟩, hp, hfail, hopen, _, _, _, _, hne, _⟩ := fail_hyps
  obtain ⟨hu, hso⟩ := kid_ok (mm_tplOK "bad" rBad hr).1 (mm_tplOK "bad" rBad hr).2 hs.kind
  have := (failure_concrete_exec rc mm mm_tplOK nEm _ _ hs hk v 5 hv hp data _ _ hfail 100 0 emptyNc emptyFl hu hso
    (fun _ _ => rfl) hne).1
  rw [hopen] at this
  exact this

/-- the hypotheses of `failure_prefix_concrete`, `failure_document_prefix_concrete` and
    `failure_siblings_indep_concrete` are satisfiable -/
example : True := by
  obtain ⟨_, hsplit, hs, hk, ⟨v, hv⟩, hp, hfail, _, hf, hfk, hfe, hpre, _⟩ := fail_hyps
  have t1 := failure_prefix_concrete rc mm nEm _ _ hs hk v 5 hv hp data _ _ hfail "ok" [] 100 0 emptyNc hf
  have t2 := failure_document_prefix_concrete rc mm (dirOf nEm) v 5 hv hp data _ _ hfail (.ok "ok", []) 100 rBad data hfe
  have t3 := failure_siblings_indep_concrete rc mm nEm _ _ hs hk v 5 hv hp data _ _ hfail 100 0 emptyNc _ _ _ hfk hfk
    (qIs_iff hpre).1
  trivial

/-- the hypotheses of the raw forms `failure_concrete_err` (the evaluator ends with a recorded error) and
    `failure_concrete_panic` (the evaluator panics) are satisfiable -/
example : True := by
  obtain ⟨_, _, hs, hk, ⟨v, hv⟩, hp, hfail, _, hf, _, _, _, _, hs', hk', ⟨v', hv'⟩, hp', _, _, hf', hpanic⟩ := fail_hyps
  obtain ⟨x, st, er, hrun, herr, _⟩ := hfail.err_inv (by decide)
  have t1 := failure_concrete_err rc mm nEm _ _ hs hk v 5 hv hp data x st er hrun herr 100 0 emptyNc hf
  have t2 := failure_concrete_panic rc mm nI _ _ hs' hk' v' 6 hv' hp' data hpanic 100 0 emptyNc hf'
  trivial

/-- … and what the faithful model computes (kernel evaluation): `Execute` of the two files stops with these chunks -/
theorem fail_computed :
    (execute rc (envOf mm) 100 rBad data).st = .err (.eval true false) ∧
    (execute rc (envOf mm) 100 rBad data).out = ["", "x", "<em id=\"e\">"] ∧
    (execute rc (envOf mm) 100 rBad data).log = ["fail"] ∧
    (exec rc (envOf mm) 100 0 emptyNc emptyFl nEm data).out = ["<em id=\"e\">"] ∧
    (execute rc (envOf mm) 100 (tplOf mm "boom") data).st = .err (.eval false false) ∧
    (execute rc (envOf mm) 100 (tplOf mm "boom") data).out = ["", "<i>"] ∧
    (execute rc (envOf mm) 100 (tplOf mm "boom") data).log = [] := by
  have h := facts.2.2.2
  simp only [failFacts, Bool.and_eq_true, and_assoc] at h
  obtain ⟨_, _, _, _, _, _, _, _, _, _, _, _, h13, _, h15, _, _, _, _, _, _, _, h23, _⟩ := h
  unfold nEm rBad
  exact ⟨(rIs_iff h13).1, (rIs_iff h13).2.1, (rIs_iff h13).2.2, (rIs_iff h15).2.1, (rIs_iff h23).1, (rIs_iff h23).2.1,
    (rIs_iff h23).2.2⟩

end Demo

end Concrete
