import TplModel.Props.CodeScanPos
/-! # C04 — range/text rendering derived from source text

The theorems live in `Props/CodeScanPos.lean`.

OBLIGATIONS: CS.scan_place, CS.scan_abs, CS.oscan_wf, CS.scan_stop_eq, CS.succ_pos_indep, CS.succ_iff_oscan, CS.fail_iff_forget, CSP.scan_translate, CSP.codeScanFailed_pos_indep, CSP.failed_iff_marker, CSP.compileParts_pos_indep, CSP.compileAttr_pos_indep, CSP.compileAttr_ok_pos_indep, C10L.loaded_attr_parts_anypos, C10L.loaded_blocks_consumed_anypos, C01.second_load_ok_uncond, C01.render_idempotent_loaded_uncond, Callbacks.range_text_from_source -/
