import TplModel.Proofs.LoadOrderComm
import TplModel.Proofs.RenderMono2
import TplModel.Props.Loader
import TplModel.Props.RenderProps
/-! # C07 (registry clause) — load-order independence, trimming of definitions, unknown names

"Fragments and files are resolved by name across the whole manager regardless of load order, whitespace-only text at
the start and end of a definition is trimmed, and an unknown name is a template-not-found error."

OBLIGATIONS: RN.ref_respects_rel, RN.refExecute_respects_rel, EN.attrEvaluate_rel, EN.withAssign_rel, EN.rangeItems_rel, EN.envOf_rel, EN.addFile_ok_iff, EN.addFile_respects, EN.load_order_independent, EN.load_two_ok_iff, EN.addFile_alone_iff, EN.render_order_independent, EN.loadFiles_perm, EN.loadFiles_perm_render, EN.execute_order_independent, EN.loaded_wf, EN.trim_nil, EN.trim_one, EN.trim_spec, EN.trim_two_blank, EN.define_registers_trimmed, EN.unknown_name_lookup, EN.unknown_name_loaded, EN.unknown_name_order

The loader numbers compiled expressions (`Part.code k` indexes `Mgr.cx.exprs`) and node ids (`fileIdx * 100000 + 1 + i`)
in load order, so two load orders give *different* managers.  They are equal up to that numbering:

* `RN.TreeRel C I` (TplModel/Proofs/RenderRel.lean) — **TreeEq**: the same tree; `code k` / `code k'` related by `C`,
  node ids by a one-to-one relation `I`.  `EN.CodeRel T T' k k'` says that `T[k]` and `T'[k']` exist and are EQUAL
  expressions (it implies `T[k]! = T'[k']!`, `EN.CodeRel.codeEq`).
* `EN.MgrEq m m'` — same functions and configuration, the same file names, and every name resolves in both managers, or
  in neither, to related trees.  `MgrEq m m` states that `m` is well formed (every index inside the table); it holds for
  every loaded manager (`loaded_wf`).
* the evaluation callbacks agree on related attributes (`attrEvaluate_rel`, `withAssign_rel`, `rangeItems_rel` — proved
  about the `Id.run`/`for` code of Engine.lean as it stands, via `EN.forIn_rel`; Engine.lean is NOT changed), hence
  `envOf_rel`, and the specification is parametric (`RN.ref_respects_rel`): related trees under related environments
  give EQUAL status, chunks and log.

Headlines: `load_order_independent` (two files, any file numbers), `load_two_ok_iff` (when it fails),
`render_order_independent`, `loadFiles_perm` (+ `_render`, and `execute_order_independent` for the faithful renderer),
`trim_spec`, `unknown_name_loaded`. -/
namespace EN
open EV (Val FnSpec)
open RN (CAttr Part NodeD Node NK Cls All2 OptRel TreeRel TplRel PBij)

/-! ## 1. rendering from equal managers -/

/-- what a name renders to according to the structural specification (`none`: the name is unknown) -/
def renderSpec (rcfg : RN.Cfg) (m : Mgr) (name : String) (fuel : Nat) (sc : List Val) :
    Option (RN.Status × List String × List String) :=
  (lookup m name).map fun root =>
    ((RN.refExecute rcfg (envOf m) fuel root sc).st, (RN.refExecute rcfg (envOf m) fuel root sc).out,
      (RN.refExecute rcfg (envOf m) fuel root sc).log)

/-- **render_order_independent.** Managers that are equal up to renumbering know the same names, and every name
    renders identically from both: same status, same output chunks, same event log, for every data and fuel. -/
theorem render_order_independent {m m' : Mgr} (h : MgrEq m m') (rcfg : RN.Cfg) (name : String) (fuel : Nat) (sc : List Val) :
    renderSpec rcfg m name fuel sc = renderSpec rcfg m' name fuel sc := by
  have hl := h.look name
  have hE := envOf_rel h
  unfold renderSpec
  revert hl
  cases lookup m name <;> cases lookup m' name <;> intro hl
  · rw [Option.map_none, Option.map_none]
  · exact hl.elim
  · exact hl.elim
  · obtain ⟨h1, h2, h3⟩ := RN.refExecute_respects_rel rcfg hE hl fuel sc
    rw [Option.map_some, Option.map_some, h1, h2, h3]

/-! ## 2. two files -/

/-- **load_order_independent.** Two files `(a, srcA)`, `(b, srcB)` added to a well-formed manager `m` (`MgrEq m m`; every
    loaded manager is, `loaded_wf`) under ANY file numbers: `b` then `a` succeeds iff `a` then `b` succeeds, and then the
    two managers are `MgrEq` — the same names, each resolving to trees equal up to renumbering.  (`a ≠ b` is not needed:
    with `a = b` both orders fail, see `load_two_ok_iff`.) -/
theorem load_order_independent (cfg : Cfg) (fns : List (String × FnSpec)) (ia ib ia' ib' : Nat) (a srcA b srcB : String)
    (m : Mgr) (hm : MgrEq m m) :
    ((∃ m1 m2, addFile cfg fns ib b srcB m = .ok m1 ∧ addFile cfg fns ia a srcA m1 = .ok m2) ↔
      (∃ m1' m2', addFile cfg fns ia' a srcA m = .ok m1' ∧ addFile cfg fns ib' b srcB m1' = .ok m2')) ∧
    ∀ m1 m2 m1' m2', addFile cfg fns ib b srcB m = .ok m1 → addFile cfg fns ia a srcA m1 = .ok m2 →
      addFile cfg fns ia' a srcA m = .ok m1' → addFile cfg fns ib' b srcB m1' = .ok m2' → MgrEq m2 m2' := by
  obtain ⟨h1, h2⟩ := addFile_swap cfg fns ia ib ia' ib' a srcA b srcB hm
  constructor
  · constructor
    · rintro ⟨m1, m2, e1, e2⟩
      obtain ⟨m2', e'⟩ := h1.mp ⟨m2, LoadRes.bind_ok.mpr ⟨m1, e1, e2⟩⟩
      obtain ⟨m1', e1', e2'⟩ := LoadRes.bind_ok.mp e'
      exact ⟨m1', m2', e1', e2'⟩
    · rintro ⟨m1', m2', e1', e2'⟩
      obtain ⟨m2, e⟩ := h1.mpr ⟨m2', LoadRes.bind_ok.mpr ⟨m1', e1', e2'⟩⟩
      obtain ⟨m1, e1, e2⟩ := LoadRes.bind_ok.mp e
      exact ⟨m1, m2, e1, e2⟩
  · intro m1 m2 m1' m2' e1 e2 e1' e2'
    exact h2 m2 m2' (LoadRes.bind_ok.mpr ⟨m1, e1, e2⟩) (LoadRes.bind_ok.mpr ⟨m1', e1', e2'⟩)

/-- **when does it fail.** Adding `b` then `a` succeeds iff both files compile on their own (`canon`: scanning, parsing
    of every `${…}`, evaluation of every `define` name) and the names they contribute — file name, then fragment names in
    document order — are pairwise distinct and not yet registered.  The condition is symmetric in the two files: a
    duplicate is detected in either order (possibly while adding a different file). -/
theorem load_two_ok_iff (cfg : Cfg) (fns : List (String × FnSpec)) (ia ib : Nat) (a srcA b srcB : String) (m : Mgr) :
    (∃ m1 m2, addFile cfg fns ib b srcB m = .ok m1 ∧ addFile cfg fns ia a srcA m1 = .ok m2) ↔
      ∃ entsA EA entsB EB, canon cfg fns a srcA = .ok (entsA, EA) ∧ canon cfg fns b srcB = .ok (entsB, EB) ∧
        (names entsA ++ names entsB).Nodup ∧ ∀ x ∈ names entsA ++ names entsB, x ∉ names m.templates := by
  constructor
  · rintro ⟨m1, m2, e1, e2⟩
    obtain ⟨entsA, EA, entsB, EB, h1, h2, h3, _⟩ :=
      (addTwo_ok_iff cfg fns ia ib a srcA b srcB m m2).mp (LoadRes.bind_ok.mpr ⟨m1, e1, e2⟩)
    obtain ⟨h4, h5⟩ := (Fresh_iff _ _).mp ((fresh_swap _ _ _).mp h3)
    exact ⟨entsA, EA, entsB, EB, h1, h2, h4, h5⟩
  · rintro ⟨entsA, EA, entsB, EB, h1, h2, h4, h5⟩
    have h3 := (fresh_swap _ _ _).mp ((Fresh_iff _ _).mpr ⟨h4, h5⟩)
    obtain ⟨m1, e1, e2⟩ := LoadRes.bind_ok.mp
      ((addTwo_ok_iff cfg fns ia ib a srcA b srcB m _).mpr ⟨entsA, EA, entsB, EB, h1, h2, h3, rfl⟩)
    exact ⟨m1, _, e1, e2⟩

/-- `canon` is "the file loads on its own": a file can be added to the empty manager iff `canon` succeeds and the
    names it contributes (its own name first) are pairwise distinct -/
theorem addFile_alone_iff (cfg : Cfg) (fns : List (String × FnSpec)) (i : Nat) (name src : String) :
    (∃ m1, addFile cfg fns i name src (emptyMgr cfg fns) = .ok m1) ↔
      ∃ ents E, canon cfg fns name src = .ok (ents, E) ∧ (names ents).Nodup := by
  constructor
  · rintro ⟨m1, e⟩
    obtain ⟨ents, E, h1, h2, _⟩ := (addFile_ok_iff cfg fns i name src _ m1).mp e
    exact ⟨ents, E, h1, ((Fresh_iff _ _).mp h2).1⟩
  · rintro ⟨ents, E, h1, h2⟩
    exact ⟨_, (addFile_ok_iff cfg fns i name src _ _).mpr
      ⟨ents, E, h1, (Fresh_iff _ _).mpr ⟨h2, fun x _ hx => by simp [emptyMgr, names] at hx⟩, rfl⟩⟩

/-- the first name a file contributes is its own -/
theorem canon_head {cfg : Cfg} {fns : List (String × FnSpec)} {name src : String} {ents : List (String × Node)} {E : Tbl}
    (h : canon cfg fns name src = .ok (ents, E)) : ∃ root new, ents = (name, root) :: new := by
  unfold canon at h
  split at h
  · cases h
  · cases h
  · unfold canonOf at h
    split at h
    · obtain ⟨new, _, h2⟩ := LoadRes.map_ok.mp h
      cases h2
      exact ⟨_, _, rfl⟩
    all_goals cases h

/-! ## 3. permutations of the file list -/

/-- **loadFiles_perm.** Loading a permutation of a file list succeeds iff loading the list succeeds, and the two
    managers are equal up to renumbering. -/
theorem loadFiles_perm (cfg : Cfg) (fns : List (String × FnSpec)) {files files' : List (String × String)} (hp : files.Perm files') :
    ((∃ m, loadFiles cfg fns files = .ok m) ↔ (∃ m', loadFiles cfg fns files' = .ok m')) ∧
    ∀ m m', loadFiles cfg fns files = .ok m → loadFiles cfg fns files' = .ok m' → MgrEq m m' :=
  loadFrom_perm cfg fns hp 0 0 _ _ (emptyMgr_eq cfg fns)

/-- … hence every template renders identically whatever the order in which the files were loaded -/
theorem loadFiles_perm_render (cfg : Cfg) (fns : List (String × FnSpec)) {files files' : List (String × String)}
    (hp : files.Perm files') {m m' : Mgr} (h : loadFiles cfg fns files = .ok m) (h' : loadFiles cfg fns files' = .ok m')
    (rcfg : RN.Cfg) (name : String) (fuel : Nat) (sc : List Val) :
    renderSpec rcfg m name fuel sc = renderSpec rcfg m' name fuel sc :=
  render_order_independent ((loadFiles_perm cfg fns hp).2 m m' h h') rcfg name fuel sc

/-- **execute_order_independent.** The same for the faithful re-entrant renderer `RN.execute` (via
    `execute_refines_loaded`): two finished executions of one name, from managers loaded in two orders, with any two
    fuels, give the same status, chunks and log. -/
theorem execute_order_independent (cfg : Cfg) (fns : List (String × FnSpec)) {files files' : List (String × String)}
    (hp : files.Perm files') {m m' : Mgr} (h : loadFiles cfg fns files = .ok m) (h' : loadFiles cfg fns files' = .ok m')
    (name : String) (root root' : Node) (hr : (envOf m).tpl name = some root) (hr' : (envOf m').tpl name = some root')
    (fuel fuel' : Nat) (sc : List Val)
    (hne : (RN.execute (rcfgOf cfg) (envOf m) fuel root sc).st ≠ .fuel)
    (hne' : (RN.execute (rcfgOf cfg) (envOf m') fuel' root' sc).st ≠ .fuel) :
    (RN.execute (rcfgOf cfg) (envOf m) fuel root sc).st = (RN.execute (rcfgOf cfg) (envOf m') fuel' root' sc).st ∧
    (RN.execute (rcfgOf cfg) (envOf m) fuel root sc).out = (RN.execute (rcfgOf cfg) (envOf m') fuel' root' sc).out ∧
    (RN.execute (rcfgOf cfg) (envOf m) fuel root sc).log = (RN.execute (rcfgOf cfg) (envOf m') fuel' root' sc).log := by
  obtain ⟨g, hg⟩ := execute_refines_loaded cfg fns files m h name root hr fuel sc hne
  obtain ⟨g', hg'⟩ := execute_refines_loaded cfg fns files' m' h' name root' hr' fuel' sc hne'
  have e1 : RN.refExecute (rcfgOf cfg) (envOf m) (max g g') root sc = RN.refExecute (rcfgOf cfg) (envOf m) g root sc :=
    RN.refExecute_mono _ _ g (max g g') root sc (Nat.le_max_left _ _) (by rw [hg]; exact hne)
  have e2 : RN.refExecute (rcfgOf cfg) (envOf m') (max g g') root' sc = RN.refExecute (rcfgOf cfg) (envOf m') g' root' sc :=
    RN.refExecute_mono _ _ g' (max g g') root' sc (Nat.le_max_right _ _) (by rw [hg']; exact hne')
  have hme := (loadFiles_perm cfg fns hp).2 m m' h h'
  have hl := hme.look name
  have hx : lookup m name = some root := hr
  have hy : lookup m' name = some root' := hr'
  simp only [hx, hy, OptRel] at hl
  obtain ⟨h1, h2, h3⟩ := RN.refExecute_respects_rel (rcfgOf cfg) (envOf_rel hme) hl (max g g') sc
  rw [e1, e2, hg, hg'] at h1 h2 h3
  exact ⟨h1, h2, h3⟩

/-! ## 4. trimming of definitions -/

theorem trimBlankKids_eq (kids : List Node) : trimBlankKids kids =
    (kids.zipIdx.filter fun x => !((x.2 == 0 || x.2 + 1 == kids.length) && RN.isBlankText x.1)).map (·.1) := rfl

/-- no children: nothing -/
theorem trim_nil : trimBlankKids [] = [] := rfl

/-- one child: dropped iff it is whitespace-only text (it is both the first and the last child) -/
theorem trim_one (k : Node) : trimBlankKids [k] = if RN.isBlankText k then [] else [k] := by
  rw [trimBlankKids_eq]
  cases h : RN.isBlankText k <;> simp [List.zipIdx_cons, h]

set_option linter.unusedSimpArgs false in
/-- **trim_spec.** Two or more children `k, mid…, l`: exactly the first child is dropped iff it is whitespace-only text,
    exactly the last child is dropped iff it is whitespace-only text, everything in between — blank or not — is kept
    in order.  (With `trim_nil` and `trim_one` this determines `trimBlankKids` on every list.) -/
theorem trim_spec (k l : Node) (mid : List Node) :
    trimBlankKids (k :: (mid ++ [l])) =
      (if RN.isBlankText k then [] else [k]) ++ mid ++ (if RN.isBlankText l then [] else [l]) := by
  rw [trimBlankKids_eq]
  have hlen : (k :: (mid ++ [l])).length = mid.length + 2 := by simp
  rw [hlen]
  have hmid : (mid.zipIdx 1).filter (fun (x : Node × Nat) =>
      !((x.2 == 0 || x.2 + 1 == mid.length + 2) && RN.isBlankText x.1)) = mid.zipIdx 1 := by
    rw [List.filter_eq_self]
    rintro ⟨x, i⟩ hx
    have := List.mem_zipIdx hx
    have h1 : (i == 0) = false := by simp; omega
    have h2 : (i + 1 == mid.length + 2) = false := by simp; omega
    simp only [h1, h2, Bool.or_self, Bool.false_and, Bool.not_false]
  rw [List.zipIdx_cons, List.zipIdx_append, List.filter_cons, List.filter_append, Nat.zero_add, hmid]
  cases hk : RN.isBlankText k <;> cases hl : RN.isBlankText l <;>
    simp [List.zipIdx_cons, hk, hl, List.zipIdx_map_fst, Nat.add_comm]

/-- two blank children: both are dropped; a blank child in the middle stays -/
theorem trim_two_blank (k l : Node) (hk : RN.isBlankText k = true) (hl : RN.isBlankText l = true) :
    trimBlankKids [k, l] = [] ∧ ∀ x, trimBlankKids [k, x, l] = [x] := by
  have h1 := trim_spec k l []
  have h2 := fun x => trim_spec k l [x]
  simp only [hk, hl, if_true, List.nil_append, List.append_nil] at h1 h2
  exact ⟨h1, fun x => by simpa using h2 x⟩

/-- **what `define` registers**: the element's children with `trimBlankKids` applied, under a fresh root; the name
    is the value of the `define` attribute -/
theorem define_registers_trimmed (cfg : Cfg) (cx : Ctx) (d : NodeD) (kids : List Node) (a : CAttr) (nameS : String)
    (lg : List String) (hk : d.kind = .tag)
    (ha : d.attrs.find? (fun a => a.name == cfg.attrPrefix ++ "define") = some a)
    (hev : attrEvaluate cx a [emptyMap] = (.ok nameS, lg)) (hlg : lg.contains unsupportedEv = false) :
    defOf cfg cx d kids = .ok [(nameS, .mk rootD (trimBlankKids kids) none)] := by
  have hlg' : ¬ (unsupportedEv ∈ lg) := by simpa using hlg
  simp [defOf, hk, ha, hev, hlg', fragRoot]

/-! ## 5. unknown names -/

/-- a name resolves to nothing iff no file and no fragment of that name is registered -/
theorem unknown_name_lookup (m : Mgr) (name : String) : (envOf m).tpl name = none ↔ name ∉ names m.templates :=
  lookupL_none m.templates name

/-- … and that does not depend on the order in which the files were loaded -/
theorem unknown_name_order {m m' : Mgr} (h : MgrEq m m') (name : String) :
    (envOf m).tpl name = none ↔ (envOf m').tpl name = none := by
  rw [unknown_name_lookup, unknown_name_lookup, h.mem_iff]

/-- **unknown_name.** In any manager, `insert` / `replace` of a name registered nowhere is the `tplNotFound` error:
    nothing is written, the attributes before it were processed (`RN.Props.unknown_name_is_tplNotFound` instantiated
    with the manager's evaluation interface). -/
theorem unknown_name_loaded (cfg : RN.Cfg) (m : Mgr) (f depth : Nat) (nc : RN.NC) (node : Node) (sc : List Val)
    (pre post : List CAttr) (a : CAttr) (name : String) (lg : List String)
    (hf : (RN.refBody cfg (envOf m) f depth nc node sc).st ≠ .fuel)
    (has : node.d.attrs = pre ++ a :: post)
    (hk : RN.classify cfg a = .replace ∨ RN.classify cfg a = .insert)
    (hpre : (RN.Spec.attrsRun cfg (envOf m) (RN.Spec.fragOf cfg (envOf m) f depth nc) node.d nc pre
      (RN.Spec.startPS cfg node.d sc)).st = .ok)
    (hE : attrEvaluate m.cx a sc = (.ok name, lg)) (hT : name ∉ names m.templates) :
    RN.refBody cfg (envOf m) f depth nc node sc =
      { st := .err .tplNotFound, out := [],
        log := (RN.Spec.attrsRun cfg (envOf m) (RN.Spec.fragOf cfg (envOf m) f depth nc) node.d nc pre
          (RN.Spec.startPS cfg node.d sc)).log ++ lg, nc := nc } :=
  RN.Props.unknown_name_is_tplNotFound cfg (envOf m) f depth nc node sc pre post a name lg hf has hk hpre hE
    ((unknown_name_lookup m name).mpr hT)

/-! ## 6. non-vacuity: two files that use each other's fragments, loaded in both orders -/
namespace OrderExample

/-- `a.html` defines `'fa'` (blank text around its content) and INSERTS `'fb'`, which is defined in `b.html` -/
def fA : String × String :=
  ("a.html", "<div :define=\"'fa'\"> <b :text=\"${x}\">A</b> </div><p :insert=\"'fb'\">x</p>")
/-- `b.html` defines `'fb'` and REPLACES an element by `'fa'`, which is defined in `a.html` -/
def fB : String × String :=
  ("b.html", "<span :define=\"'fb'\"> <i :text=\"${y}\">B</i> </span><u :replace=\"'fa'\">y</u>!")
/-- a third file that defines `'fa'` again -/
def fC : String × String := ("c.html", "<em :define=\"'fa'\">C</em>")

def data : List Val := [.map "map[string]interface {}" [("x", .str "X"), ("y", .str "Y")], emptyMap]

/-- the faithful renderer finished successfully with exactly these chunks -/
def runIs (r : RN.R) (out : List String) : Bool := decide (r.st = .ok) && r.out == out

def rendersAs (m : Mgr) (name : String) (out : List String) : Bool :=
  match (envOf m).tpl name with
  | some root => runIs (RN.execute (rcfgOf {}) (envOf m) 200 root data) out
  | none => false

/-- both orders load, the registries list the names in different orders, and both files render to the same chunks
    from both managers (the fragments arrive trimmed: `<i>Y</i>`, not ` <i>Y</i> `) -/
def demo : Bool :=
  match loadFiles {} [] [fA, fB], loadFiles {} [] [fB, fA] with
  | .ok m, .ok m' =>
    rendersAs m "a.html" ["", "", "<p><i>Y</i>", "</p>"] && rendersAs m' "a.html" ["", "", "<p><i>Y</i>", "</p>"] &&
    rendersAs m "b.html" ["", "", "<b>X</b>", "!"] && rendersAs m' "b.html" ["", "", "<b>X</b>", "!"] &&
    m.templates.map (·.1) == ["a.html", "'fa'", "b.html", "'fb'"] &&
    m'.templates.map (·.1) == ["b.html", "'fb'", "a.html", "'fa'"]
  | _, _ => false

set_option maxRecDepth 100000 in
theorem demo_true : demo = true := by decide +kernel

/-- the hypotheses of `loadFiles_perm`, `loadFiles_perm_render`, `execute_order_independent` are satisfiable on a
    non-trivial input: both orders load, the managers are different (names in a different order) but `MgrEq`, the faithful
    executions finish -/
example : ∃ m m' ra ra', loadFiles {} [] [fA, fB] = .ok m ∧ loadFiles {} [] [fB, fA] = .ok m' ∧ MgrEq m m' ∧
    m.templates.map (·.1) ≠ m'.templates.map (·.1) ∧
    (envOf m).tpl "a.html" = some ra ∧ (envOf m').tpl "a.html" = some ra' ∧
    (RN.execute (rcfgOf {}) (envOf m) 200 ra data).st ≠ .fuel ∧ (RN.execute (rcfgOf {}) (envOf m') 200 ra' data).st ≠ .fuel ∧
    (RN.execute (rcfgOf {}) (envOf m) 200 ra data).out = (RN.execute (rcfgOf {}) (envOf m') 200 ra' data).out ∧
    -- the hypotheses of `RN.ref_respects_rel` / `RN.refExecute_respects_rel`:
    RN.EnvRel (CodeRel m.cx.exprs m'.cx.exprs) (envOf m) (envOf m') ∧ TplRel (CodeRel m.cx.exprs m'.cx.exprs) ra ra' := by
  have h := demo_true
  unfold demo at h
  split at h
  · rename_i m m' hm hm'
    simp only [Bool.and_eq_true, rendersAs] at h
    obtain ⟨⟨⟨⟨⟨h1, h2⟩, _⟩, _⟩, h5⟩, h6⟩ := h
    split at h1
    · rename_i ra hra
      split at h2
      · rename_i ra' hra'
        have hp : [fA, fB].Perm [fB, fA] := List.Perm.swap _ _ _
        have hst : (RN.execute (rcfgOf {}) (envOf m) 200 ra data).st ≠ .fuel := by
          simp only [runIs, Bool.and_eq_true, decide_eq_true_eq] at h1; rw [h1.1]; decide
        have hst' : (RN.execute (rcfgOf {}) (envOf m') 200 ra' data).st ≠ .fuel := by
          simp only [runIs, Bool.and_eq_true, decide_eq_true_eq] at h2; rw [h2.1]; decide
        have hme := (loadFiles_perm {} [] hp).2 m m' hm hm'
        have hl := hme.look "a.html"
        have hx : lookup m "a.html" = some ra := hra
        have hy : lookup m' "a.html" = some ra' := hra'
        simp only [hx, hy, OptRel] at hl
        refine ⟨m, m', ra, ra', hm, hm', hme, ?_, hra, hra', hst, hst',
          (execute_order_independent {} [] hp hm hm' "a.html" ra ra' hra hra' 200 200 data hst hst').2.1, envOf_rel hme, hl⟩
        simp only [beq_iff_eq] at h5 h6
        rw [h5, h6]; decide
      · cases h2
    · cases h1
  · cases h

/-- the same two files through `addFile` (file numbers 1, 2), and a duplicate fragment name: `c.html` defines `'fa'`
    again, which fails in either order — in one order while adding `c.html`, in the other while adding `a.html` -/
def demo2 : Bool :=
  (match addFile {} [] 1 fB.1 fB.2 (emptyMgr {} []) with
   | .ok m1 => (match addFile {} [] 2 fA.1 fA.2 m1 with | .ok _ => true | _ => false)
   | _ => false) &&
  (match addFile {} [] 1 fA.1 fA.2 (emptyMgr {} []) with
   | .ok m1 =>
     (match addFile {} [] 2 fB.1 fB.2 m1 with | .ok _ => true | _ => false) &&
     (match addFile {} [] 2 fC.1 fC.2 m1 with | .ok _ => false | _ => true)
   | _ => false) &&
  (match addFile {} [] 1 fC.1 fC.2 (emptyMgr {} []) with
   | .ok m1 => (match addFile {} [] 2 fA.1 fA.2 m1 with | .ok _ => false | _ => true)
   | _ => false)

set_option maxRecDepth 100000 in
theorem demo2_true : demo2 = true := by decide +kernel

/-- the hypotheses of `load_order_independent` are satisfiable (both sides of the equivalence hold) -/
example : MgrEq (emptyMgr {} []) (emptyMgr {} []) ∧
    (∃ m1 m2, addFile {} [] 1 fB.1 fB.2 (emptyMgr {} []) = .ok m1 ∧ addFile {} [] 2 fA.1 fA.2 m1 = .ok m2) ∧
    (∃ m1 m2, addFile {} [] 1 fA.1 fA.2 (emptyMgr {} []) = .ok m1 ∧ addFile {} [] 2 fB.1 fB.2 m1 = .ok m2) := by
  have h := demo2_true
  unfold demo2 at h
  simp only [Bool.and_eq_true] at h
  obtain ⟨⟨h1, h2⟩, _⟩ := h
  refine ⟨emptyMgr_eq {} [], ?_, ?_⟩
  · split at h1
    · rename_i m1 e1
      split at h1
      · rename_i m2 e2; exact ⟨m1, m2, e1, e2⟩
      · cases h1
    · cases h1
  · split at h2
    · rename_i m1 e1
      simp only [Bool.and_eq_true] at h2
      obtain ⟨h2, _⟩ := h2
      split at h2
      · rename_i m2 e2; exact ⟨m1, m2, e1, e2⟩
      · cases h2
    · cases h2

/-- … and both sides can fail together (duplicate fragment name, `load_two_ok_iff`) -/
example : (¬ ∃ m1 m2, addFile {} [] 1 fA.1 fA.2 (emptyMgr {} []) = .ok m1 ∧ addFile {} [] 2 fC.1 fC.2 m1 = .ok m2) ∧
    (¬ ∃ m1 m2, addFile {} [] 1 fC.1 fC.2 (emptyMgr {} []) = .ok m1 ∧ addFile {} [] 2 fA.1 fA.2 m1 = .ok m2) := by
  have h := demo2_true
  unfold demo2 at h
  simp only [Bool.and_eq_true] at h
  obtain ⟨⟨_, h2⟩, h3⟩ := h
  constructor
  · rintro ⟨m1, m2, e1, e2⟩
    rw [e1] at h2
    simp only [Bool.and_eq_true] at h2
    rw [e2] at h2
    exact absurd h2.2 (by simp)
  · rintro ⟨m1, m2, e1, e2⟩
    rw [e1] at h3
    simp only at h3
    rw [e2] at h3
    exact absurd h3 (by simp)

/-- an unknown name: `a.html` alone inserts `'fb'`, which is registered nowhere — `tplNotFound` -/
def demo3 : Bool :=
  match loadFiles {} [] [fA] with
  | .ok m =>
    (match (envOf m).tpl "a.html" with
     | some root => decide ((RN.execute (rcfgOf {}) (envOf m) 200 root data).st = .err .tplNotFound)
     | none => false) &&
    (match (envOf m).tpl "'fb'" with | none => true | some _ => false)
  | _ => false

set_option maxRecDepth 100000 in
theorem demo3_true : demo3 = true := by decide +kernel

example : ∃ m root, loadFiles {} [] [fA] = .ok m ∧ (envOf m).tpl "a.html" = some root ∧ "'fb'" ∉ names m.templates ∧
    (RN.execute (rcfgOf {}) (envOf m) 200 root data).st = .err .tplNotFound := by
  have h := demo3_true
  unfold demo3 at h
  split at h
  · rename_i m hm
    simp only [Bool.and_eq_true] at h
    obtain ⟨h1, h2⟩ := h
    split at h1
    · rename_i root hroot
      split at h2
      · rename_i hno
        exact ⟨m, root, hm, hroot, (unknown_name_lookup m _).mp hno, by simpa using h1⟩
      · cases h2
    · cases h1
  · cases h

/-- `trim_two_blank` on concrete nodes -/
def blank : Node := .mk { id := 1, kind := .text, value := " \n\t", tagName := "", attrs := [] } [] none
def word : Node := .mk { id := 2, kind := .text, value := " ", tagName := "", attrs := [] } [] none

example : trimBlankKids [blank, blank] = [] ∧ trimBlankKids [blank, word, blank] = [word] ∧ RN.isBlankText word = true := by
  have hb : RN.isBlankText blank = true := by decide +kernel
  have hw : RN.isBlankText word = true := by decide +kernel
  exact ⟨(trim_two_blank blank blank hb hb).1, (trim_two_blank blank blank hb hb).2 word, hw⟩

end OrderExample

end EN
