import TplModel.Generated.Facts
/-! # C07 / C19 — fact re-extracted from html/manager.go on every run

OBLIGATIONS: C07K.getTemplate_looks_in_the_one_registry

"Fragments and files are resolved by name in one registry": `(*tplManager).GetTemplate` indexes the `templates` map —
the registry that `Add` fills with file names AND fragment names (the model's `Mgr.templates`) — not the list of files. -/
namespace C07K

theorem getTemplate_looks_in_the_one_registry : Facts.getTemplateLooksIn = "templates" := by decide

end C07K
