/-! # HTML escaping as done by Go's `html.EscapeString`, and the inverse on exactly those five entities

`html.EscapeString` is a `strings.Replacer` over the five single characters `& ' < > "`, i.e. a per-character
substitution; everything else is copied. Strings are `List Char` as in the scanner models. Core-only, executable. -/
namespace Esc

/-- the replacement of one character (5-entry table of `html.EscapeString`) -/
def escChar (c : Char) : List Char :=
  if c = '&' then ['&', 'a', 'm', 'p', ';']
  else if c = '\'' then ['&', '#', '3', '9', ';']
  else if c = '<' then ['&', 'l', 't', ';']
  else if c = '>' then ['&', 'g', 't', ';']
  else if c = '"' then ['&', '#', '3', '4', ';']
  else [c]

def escape : List Char → List Char
  | [] => []
  | c :: cs => escChar c ++ escape cs

/-- decode exactly `&amp; &#39; &lt; &gt; &#34;`, left to right, and leave everything else alone -/
def unescape5 : List Char → List Char
  | [] => []
  | '&' :: 'a' :: 'm' :: 'p' :: ';' :: r => '&' :: unescape5 r
  | '&' :: '#' :: '3' :: '9' :: ';' :: r => '\'' :: unescape5 r
  | '&' :: 'l' :: 't' :: ';' :: r => '<' :: unescape5 r
  | '&' :: 'g' :: 't' :: ';' :: r => '>' :: unescape5 r
  | '&' :: '#' :: '3' :: '4' :: ';' :: r => '"' :: unescape5 r
  | c :: r => c :: unescape5 r

/-- the five entity tails that may follow an `&` produced by `escape` -/
def entityTails : List (List Char) :=
  [['a', 'm', 'p', ';'], ['#', '3', '9', ';'], ['l', 't', ';'], ['g', 't', ';'], ['#', '3', '4', ';']]

def escapeStr (s : String) : String := String.ofList (escape s.toList)
def unescape5Str (s : String) : String := String.ofList (unescape5 s.toList)

end Esc
