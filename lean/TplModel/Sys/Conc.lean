/-! # M14 — shared-location access traces, interleavings, happens-before, data races

An abstract model of the LOGIC behind property C15 (and C18): threads are straight-line lists of atomic
actions on shared locations, an interleaving is a merge of the threads that respects program order, an
execution runs an interleaving over a shared store (sequential consistency) and collects what every thread
read, and a data race is a pair of conflicting accesses that are not ordered by happens-before.

What the model does NOT capture (and what ties it to the code instead):
 * the Go memory model itself.  We only use its DRF-SC guarantee informally: "a program all of whose
   sequentially consistent executions are free of data races behaves sequentially consistently".  The theorems
   in `Props/C15.lean` show the premise (no SC interleaving has a race) and the SC consequence (every thread
   observes what it observes alone); the guarantee itself is an assumption about the Go runtime;
 * real schedules, goroutine creation/join, preemption, the scheduler: `Interleaving` is ALL program-order
   respecting merges, a superset of whatever the runtime can produce (including merges in which a `lock` is
   taken while the mutex is held — `lockFeasible` recognises the realistic ones; the theorems hold for all);
 * that the code's accesses are the ones assumed: that `Execute` only reads the parsed tree, that the only
   shared writes are the mutex-protected lazy caches of `Tag`, and that the cached value is a function of the
   immutable attribute list.  Those premises come from the generated fact module
   (`Facts.sharedWritesReachableFromExecute`) and the `go test -race` harness, not from Lean;
 * `initCache m l v` is taken as ONE atomic action standing for `lock m; if *l == 0 { *l = v }; x := *l;
   unlock m`.  That the critical section is atomic with respect to everything else that touches `l` is exactly
   what the mutex gives in lock-feasible schedules; the expansion is not modelled;
 * data-dependent control flow: a thread is a fixed list of actions (one path of one execution).  Serial
   equivalence of the observations implies, by induction on the path, that a deterministic program takes the same
   path — that step is not formalised here.

Everything in this file is core-only and executable; the `Prop`s have Boolean checkers (`interleavingB`,
`hbB`, `raceB`, `initDisciplineB`) whose correctness is proved in `TplModel/Proofs/Conc.lean`. -/
namespace CC

abbrev Loc := Nat
abbrev Store := Loc → Nat

/-- atomic actions of a thread -/
inductive Act where
  | read (l : Loc)
  | write (l : Loc) (v : Nat)
  | lock (m : Nat)
  | unlock (m : Nat)
  /-- `lock m; if store l = 0 then store l := v; observe store l; unlock m`, atomically -/
  | initCache (m : Nat) (l : Loc) (v : Nat)
  deriving DecidableEq, Repr

/-- a schedule: thread index × action, in execution order -/
abbrev Sched := List (Nat × Act)

def upd (s : Store) (l : Loc) (v : Nat) : Store := fun x => if x = l then v else s x

namespace Act

/-- the shared location an action accesses -/
def loc? : Act → Option Loc
  | read l => some l
  | write l _ => some l
  | initCache _ l _ => some l
  | _ => none

/-- actions that may write -/
def mutates : Act → Bool
  | write _ _ => true
  | initCache _ _ _ => true
  | _ => false

/-- mutex acquired by the action -/
def acq? : Act → Option Nat
  | lock m => some m
  | initCache m _ _ => some m
  | _ => none

/-- mutex released by the action -/
def rel? : Act → Option Nat
  | unlock m => some m
  | initCache m _ _ => some m
  | _ => none

end Act

/-! ## execution -/

def stepStore (s : Store) : Act → Store
  | .write l v => upd s l v
  | .initCache _ l v => if s l = 0 then upd s l v else s
  | _ => s

/-- what the executing thread observes -/
def obsAct (s : Store) : Act → List Nat
  | .read l => [s l]
  | .initCache _ l v => [if s l = 0 then v else s l]
  | _ => []

/-- does executing `a` in store `s` perform a write to its location (an `initCache` that finds the cache built
    only reads it, under the mutex) -/
def writesIn (s : Store) : Act → Bool
  | .write _ _ => true
  | .initCache _ l _ => s l == 0
  | _ => false

def finalStore : Store → Sched → Store
  | s, [] => s
  | s, (_, a) :: rest => finalStore (stepStore s a) rest

/-- store in which the action at position `k` executes -/
def storeAt (s0 : Store) (sched : Sched) (k : Nat) : Store := finalStore s0 (sched.take k)

/-- observations of thread `i` when `sched` runs from store `s` -/
def runObs (i : Nat) : Store → Sched → List Nat
  | _, [] => []
  | s, (j, a) :: rest => (if j = i then obsAct s a else []) ++ runObs i (stepStore s a) rest

/-- a thread run alone -/
def solo (s0 : Store) (t : List Act) : List Nat := runObs 0 s0 (t.map fun a => (0, a))

/-- whole execution: final store and the observation list of each of `n` threads -/
def exec (n : Nat) (s0 : Store) (sched : Sched) : Store × List (List Nat) :=
  (finalStore s0 sched, (List.range n).map fun i => runObs i s0 sched)

/-! ## interleavings -/

/-- actions of thread `i` in a schedule, in order -/
def proj (i : Nat) (sched : Sched) : List Act :=
  sched.filterMap fun x => if x.1 = i then some x.2 else none

/-- `Interleaving ts sched`: `sched` is a complete merge of the threads `ts` respecting program order -/
inductive Interleaving : List (List Act) → Sched → Prop
  | nil {ts : List (List Act)} : (∀ t ∈ ts, t = []) → Interleaving ts []
  | cons {ts : List (List Act)} {i : Nat} {a : Act} {rest : List Act} {s : Sched} :
      ts[i]? = some (a :: rest) → Interleaving (ts.set i rest) s → Interleaving ts ((i, a) :: s)

/-- Boolean characterisation: every index is a thread and every projection is that thread -/
def interleavingB (ts : List (List Act)) (sched : Sched) : Bool :=
  sched.all (fun x => x.1 < ts.length) &&
  (List.range ts.length).all fun i => proj i sched == ts[i]?.getD []

/-- mutual exclusion respected: `lock`/`initCache` only on a free mutex, `unlock` only by the holder.
    `held` lists (mutex, holder). Not needed by the theorems (they hold for all merges). -/
def lockFeasible : List (Nat × Nat) → Sched → Bool
  | _, [] => true
  | held, (i, .lock m) :: rest => !(held.any (·.1 == m)) && lockFeasible ((m, i) :: held) rest
  | held, (i, .unlock m) :: rest => held.contains (m, i) && lockFeasible (held.erase (m, i)) rest
  | held, (_, .initCache m _ _) :: rest => !(held.any (·.1 == m)) && lockFeasible held rest
  | held, _ :: rest => lockFeasible held rest

/-! ## happens-before and races -/

/-- `HB sched i j`: the action at position `i` happens before the one at position `j`:
    program order, release→acquire of the same mutex in schedule order, transitively closed -/
inductive HB (sched : Sched) : Nat → Nat → Prop
  | po {i j : Nat} {t : Nat} {a b : Act} : i < j → sched[i]? = some (t, a) → sched[j]? = some (t, b) → HB sched i j
  | sync {i j : Nat} {t u m : Nat} {a b : Act} : i < j → sched[i]? = some (t, a) → sched[j]? = some (u, b) →
      a.rel? = some m → b.acq? = some m → HB sched i j
  | trans {i j k : Nat} : HB sched i j → HB sched j k → HB sched i k

/-- a data race in the execution of `sched` from `s0`: positions `i < j`, different threads, same location,
    at least one of the two actually writes, not ordered by happens-before -/
def Race (s0 : Store) (sched : Sched) : Prop :=
  ∃ (i j ti tj : Nat) (ai aj : Act) (l : Loc), i < j ∧ sched[i]? = some (ti, ai) ∧ sched[j]? = some (tj, aj) ∧ ti ≠ tj ∧
    ai.loc? = some l ∧ aj.loc? = some l ∧
    (writesIn (storeAt s0 sched i) ai = true ∨ writesIn (storeAt s0 sched j) aj = true) ∧ ¬ HB sched i j

/-- direct happens-before edge between positions -/
def edgeB (sched : Sched) (i j : Nat) : Bool :=
  decide (i < j) &&
  match sched[i]?, sched[j]? with
  | some (t, a), some (u, b) => t == u || (a.rel?.isSome && a.rel? == b.acq?)
  | _, _ => false

/-- positions `k < n` with `k = i` or `i` happens before `k` -/
def reach (sched : Sched) (i : Nat) : Nat → List Nat
  | 0 => []
  | n + 1 =>
    let r := reach sched i n
    if n = i ∨ r.any (fun k => edgeB sched k n) then n :: r else r

def hbB (sched : Sched) (i j : Nat) : Bool := decide (i < j) && (reach sched i (j + 1)).contains j

def conflictB (s0 : Store) (sched : Sched) (i j : Nat) : Bool :=
  match sched[i]?, sched[j]? with
  | some (ti, ai), some (tj, aj) =>
      ti != tj && ai.loc?.isSome && ai.loc? == aj.loc? &&
      (writesIn (storeAt s0 sched i) ai || writesIn (storeAt s0 sched j) aj)
  | _, _ => false

def raceB (s0 : Store) (sched : Sched) : Bool :=
  (List.range sched.length).any fun j => (List.range j).any fun i => conflictB s0 sched i j && !hbB sched i j

/-! ## access disciplines -/

/-- no thread writes a shared location (reads, and harmless lock/unlock, only) -/
def ReadOnly (ts : List (List Act)) : Prop := ∀ t ∈ ts, ∀ a ∈ t, a.mutates = false

instance (ts : List (List Act)) : Decidable (ReadOnly ts) := by unfold ReadOnly; infer_instance

/-- The discipline of lock-protected idempotent lazy initialisation:
    * no plain writes;
    * all `initCache` on one location use the same mutex and the same value (the cached value is a function of
      immutable state) and that value is not the "uninitialised" marker 0;
    * a location that is initialised lazily anywhere (a cache location) is read by a thread only after that
      thread executed `initCache` on it itself. -/
structure InitDiscipline (ts : List (List Act)) : Prop where
  noWrite : ∀ t ∈ ts, ∀ l v, Act.write l v ∉ t
  agree : ∀ t ∈ ts, ∀ t' ∈ ts, ∀ m l v m' v', Act.initCache m l v ∈ t → Act.initCache m' l v' ∈ t' → m = m' ∧ v = v'
  nonzero : ∀ t ∈ ts, ∀ m l v, Act.initCache m l v ∈ t → v ≠ 0
  readAfterInit : ∀ t ∈ ts, ∀ pre l post, t = pre ++ Act.read l :: post →
      (∃ t' ∈ ts, ∃ m v, Act.initCache m l v ∈ t') → ∃ m v, Act.initCache m l v ∈ pre

/-- all `(l, m, v)` with `initCache m l v` somewhere -/
def inits (ts : List (List Act)) : List (Loc × Nat × Nat) :=
  ts.flatten.filterMap fun a => match a with
    | .initCache m l v => some (l, m, v)
    | _ => none

/-- thread-local scan: reads of cache locations only after an own init (`done` = locations initialised so far) -/
def readsAfterInitB (isC : Loc → Bool) : List Loc → List Act → Bool
  | _, [] => true
  | done, .read l :: rest => (!isC l || done.contains l) && readsAfterInitB isC done rest
  | done, .initCache _ l _ :: rest => readsAfterInitB isC (l :: done) rest
  | done, _ :: rest => readsAfterInitB isC done rest

def initDisciplineB (ts : List (List Act)) : Bool :=
  let is := inits ts
  ts.all (fun t => t.all fun a => match a with | .write _ _ => false | _ => true) &&
  is.all (fun x => x.2.2 != 0 && is.all fun y => x.1 != y.1 || (x.2.1 == y.2.1 && x.2.2 == y.2.2)) &&
  ts.all fun t => readsAfterInitB (fun l => is.any (·.1 == l)) [] t

end CC
