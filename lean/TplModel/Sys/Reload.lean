/-! # M11 — `render.go`: the reloadable HTML renderer (`htmlRender`)

Model of `NewHTMLRender`, `(*htmlRender).Reload`, `Instance`, `GetTemplate`, `(*render).Render` and
`(*render).WriteContentType`, sequential semantics (the `manager` field is guarded by `h.mu`, so every access is
atomic; interleavings are the business of `Sys/Conc`).

Abstractions
* a template set (`types.TemplateManager`) is an identity plus the set of template names it knows;
* the builder (`types.Factory`) is external: the outcome of each call is part of the operation that triggers it.
  A Go builder may return a non-nil manager *together with* an error (the doc example does); both `Reload` and
  `GetTemplate` test `err` first and never look at that manager, so `Build.fail` carries none.  A builder returning
  `(nil, nil)` is not modelled (it would behave as `noManager`).
* template execution is abstract: a found template "writes", every error path writes nothing.

Core-only, executable, no recursion other than over the op list. -/
namespace RL

/-- A built template set: identity and which template names exist. -/
structure Mgr where
  id : Nat
  has : Nat → Bool

/-- Convenience for drivers: a manager knowing exactly the listed names. -/
def Mgr.ofList (id : Nat) (names : List Nat) : Mgr := ⟨id, fun n => names.contains n⟩

/-- Outcome of one call of the builder. -/
inductive Build where
  | ok (m : Mgr)
  | fail

inductive Op where
  /-- `r.Reload(ctx)`; the builder call made by it returns `b` -/
  | reload (b : Build)
  /-- `x := r.Instance(ctx, name, data); x.WriteContentType(w); x.Render(w)`; `b` is the outcome of the builder call
      made by `GetTemplate`, which happens in hot-reload mode only; `headerAlreadySet` = the handler has put a
      `Content-Type` on `w` before -/
  | request (name : Nat) (b : Build) (headerAlreadySet : Bool)
  /-- `r.GetTemplate(ctx, name)` -/
  | getTemplate (name : Nat) (b : Build)

/-- `htmlRender.manager` (nil = `none`). `hotReload` and `builder` are immutable and passed separately. -/
structure State where
  current : Option Mgr

/-- Result of `GetTemplate` / of `Render`. -/
inductive Res where
  /-- the lookup went to manager `mgrId`; `found = false` is its template-not-found error -/
  | served (mgrId : Nat) (found : Bool)
  /-- hot reload: this request's build failed, its error is returned -/
  | buildErr
  /-- "tpl: no template set has been built successfully" -/
  | noManager
  deriving DecidableEq, Repr

inductive Out where
  | reloadOk
  | reloadErr
  /-- `ctSet`: `WriteContentType` stored `text/html; charset=utf-8` in the header map -/
  | request (r : Res) (ctSet : Bool)
  | getTemplate (r : Res)
  deriving DecidableEq, Repr

/-- `m, err := h.builder(ctx)` as the pair Go sees; on error the manager value is never used. -/
def builderCall : Build → Option Mgr × Bool
  | .ok m => (some m, false)
  | .fail => (none, true)

/-- `(*htmlRender).Reload`: returns the new state and "returned a non-nil error".
```go
m, err := h.builder(ctx)
if err != nil { return err }
h.mu.Lock(); h.manager = m; h.mu.Unlock()
return nil
``` -/
def reload (s : State) (b : Build) : State × Bool :=
  match builderCall b with
  | (_, true) => (s, true)
  | (m, false) => ({ current := m }, false)

/-- `NewHTMLRender`: `r := &htmlRender{…}; return r, r.Reload(context.Background())` — in both modes, so even a
    hot-reload renderer stores its first build. Second component: an error was returned. -/
def init (_hot : Bool) (first : Build) : State × Bool := reload { current := none } first

/-- `(*htmlRender).GetTemplate`:
```go
h.mu.RLock(); m, err := h.manager, error(nil); h.mu.RUnlock()
if h.hotReload { m, err = h.builder(ctx) }      // fresh build, NOT stored
if err != nil { return nil, err }
if m == nil { return nil, errors.New("tpl: no template set has been built successfully") }
return m.GetTemplate(tplName)
``` -/
def getTpl (hot : Bool) (s : State) (name : Nat) (b : Build) : Res :=
  match (if hot then builderCall b else (s.current, false)) with
  | (_, true) => .buildErr
  | (none, false) => .noManager
  | (some m, false) => .served m.id (m.has name)

/-- `GetTemplate` returned a non-nil error. -/
def Res.isErr : Res → Bool
  | .served _ true => false
  | _ => true

/-- One operation. `Instance` wraps the result of `GetTemplate` in a `render{err}` or `render{tpl,obj}`;
    `WriteContentType` looks only at the header map (`len(header["Content-Type"]) == 0`), not at `r.err`;
    `Render` returns `r.err` untouched if set, else executes the template. None of the three touches `h`. -/
def step (hot : Bool) (s : State) : Op → State × Out
  | .reload b => ((reload s b).1, if (reload s b).2 then .reloadErr else .reloadOk)
  | .request name b hdr => (s, .request (getTpl hot s name b) (!hdr))
  | .getTemplate name b => (s, .getTemplate (getTpl hot s name b))

/-- Bytes may have reached the response body: only `(*render).Render` with `r.err == nil` calls `tpl.Execute(w, …)`;
    `if r.err != nil { return r.err }` comes before any use of `w`. `GetTemplate` and `Reload` have no writer. -/
def written : Out → Bool
  | .request r _ => !r.isErr
  | _ => false

/-- The operation reported an error to its caller. -/
def Out.isErr : Out → Bool
  | .reloadOk => false
  | .reloadErr => true
  | .request r _ => r.isErr
  | .getTemplate r => r.isErr

/-- The renderer stored its own content type in the response header. -/
def Out.ctSet : Out → Bool
  | .request _ c => c
  | _ => false

def execFrom (hot : Bool) (s : State) : List Op → State
  | [] => s
  | op :: ops => execFrom hot (step hot s op).1 ops

def runFrom (hot : Bool) (s : State) : List Op → List Out
  | [] => []
  | op :: ops => (step hot s op).2 :: runFrom hot (step hot s op).1 ops

/-- State after `NewHTMLRender` (whose builder call returned `first`) followed by `ops`. -/
def exec (hot : Bool) (first : Build) (ops : List Op) : State := execFrom hot (init hot first).1 ops

/-- Executable trace: the observable result of every operation in `ops`, in order, on the renderer returned by
    `NewHTMLRender(builder, WithHotReload(hot))` whose first builder call returned `first`.
    (`(init hot first).2` tells whether `NewHTMLRender` itself returned an error.) -/
def run (hot : Bool) (first : Build) (ops : List Op) : List Out := runFrom hot (init hot first).1 ops

/-! ## Specification (independent of `step`) -/

def Build.mgr? : Build → Option Mgr
  | .ok m => some m
  | .fail => none

/-- The manager built by the most recent (= last in the list) successful `Reload` among `ops`. -/
def lastReload? : List Op → Option Mgr
  | [] => none
  | op :: rest =>
    match lastReload? rest with
    | some m => some m
    | none =>
      match op with
      | .reload (.ok m) => some m
      | _ => none

/-- The template set produced by the most recent successful build: last successful `Reload`, else the initial
    build if that succeeded, else none. -/
def lastSuccess (first : Build) (ops : List Op) : Option Mgr :=
  match lastReload? ops with
  | some m => some m
  | none => first.mgr?

/-- What a lookup of `name` must answer when the set in service is `cur`. -/
def serveFrom (cur : Option Mgr) (name : Nat) : Res :=
  match cur with
  | none => .noManager
  | some m => .served m.id (m.has name)

/-- What a hot-reload lookup must answer given that request's own build. -/
def serveFresh (b : Build) (name : Nat) : Res :=
  match b with
  | .ok m => .served m.id (m.has name)
  | .fail => .buildErr

/-! ## Traces -/

private def A : Mgr := .ofList 1 [10, 11]
private def B : Mgr := .ofList 2 [10, 12]

-- normal mode: builds attached to requests are ignored; failed reload keeps A; successful reload switches to B
example : run false (.ok A)
    [.request 10 .fail false, .request 12 (.ok B) true, .reload .fail, .getTemplate 11 .fail,
     .reload (.ok B), .request 12 .fail false, .getTemplate 11 .fail, .reload .fail, .request 10 .fail true] =
    [.request (.served 1 true) true, .request (.served 1 false) false, .reloadErr, .getTemplate (.served 1 true),
     .reloadOk, .request (.served 2 true) true, .getTemplate (.served 2 false), .reloadErr,
     .request (.served 2 true) false] := by decide

-- normal mode, first build failed: no manager until a Reload succeeds
example : (init false .fail).2 = true ∧
    run false .fail [.request 10 (.ok A) false, .getTemplate 10 (.ok A), .reload .fail, .request 10 (.ok A) true,
                     .reload (.ok A), .request 10 .fail false] =
    [.request .noManager true, .getTemplate .noManager, .reloadErr, .request .noManager false,
     .reloadOk, .request (.served 1 true) true] := by decide

-- hot mode: each request is served from its own build; Reload results are irrelevant to requests
example : run true (.ok A)
    [.request 12 (.ok B) false, .request 12 .fail false, .reload (.ok B), .request 11 (.ok A) true,
     .getTemplate 10 .fail, .getTemplate 12 (.ok A)] =
    [.request (.served 2 true) true, .request .buildErr true, .reloadOk, .request (.served 1 true) false,
     .getTemplate .buildErr, .getTemplate (.served 1 false)] := by decide

-- hot mode, first build failed: requests still work as soon as their own build succeeds
example : (init true .fail).2 = true ∧
    run true .fail [.request 10 (.ok A) false, .request 10 .fail true] =
    [.request (.served 1 true) true, .request .buildErr false] := by decide

end RL
