import TplModel.Exp.Eval
/-! # M13 — model of `cmd/xtpl` (gettext extractor for tpl templates)

Mirrors, at the HEAD of /repo, `cmd/xtpl/main.go` (`EnterPrimaryExpr`, `getFnName`, `doExtract`,
`isStringLiteral`, `unquote`, `Save`) and `cmd/xtpl/models.go` (`Keyword`, `MaxArgIndex`, `parseKeywords`).
Core-only, executable, total (mutual structural recursion over `EL.E`).

Abstractions (all input-only):
* a compiled expression tree is an `EL.E` (the model of the ANTLR parse tree, M5);
* the reference comment `#: file:line:col` of an entry is an abstract occurrence id `Nat`, computed by a
  caller-supplied function `pos n i` = "position of the first token of argument `i` (1-based) of the `n`-th
  call node (pre-order, 0-based) of the tree"; `cited` says whether the entry carries that reference comment:
  `doExtract` only produces entries with `cited = true` (a keyword without msgid position, `MsgID < 1`, the only
  case without reference comment, adds nothing since the fix of `doExtract`); the field is kept because `Save` is
  modelled for arbitrary entry lists;
* `strconv.ParseInt(_, 10, 64)` results are clamped to `Nat`: a negative position behaves exactly like `0`
  in `doExtract`/`MaxArgIndex` (all uses are `i > 0`, `kw.MsgID < 1` and `max … > count` with `count ≥ 1`);
* string literals are decoded with `EV.decodeStr` (the evaluator's decoder, of which `unquote` is a copy);
  `unquote` drops the error of `strconv.Unquote` and returns `""`; `EV.Dec.unsupported` (escapes that build
  invalid UTF-8 — outside the evaluator model as well) is mapped to `""` too. -/
namespace XT
open EL (E)

/-! ## keywords (`models.go`) -/

structure Keyword where
  name : String
  ctx : Nat      -- MsgCtxt: 1-based argument position of the context, 0 = none
  id : Nat       -- MsgID
  plural : Nat   -- MsgID2
deriving Repr, DecidableEq, Inhabited

/-- `Keyword.MaxArgIndex` -/
def Keyword.maxArg (kw : Keyword) : Nat := max (max kw.ctx kw.id) kw.plural

/-- `strings.Split(s, string(sep))` on the characters of `s` (always at least one piece) -/
def splitOn (sep : Char) : List Char → List (List Char)
  | [] => [[]]
  | c :: cs =>
    if c = sep then [] :: splitOn sep cs
    else match splitOn sep cs with
      | h :: t => (c :: h) :: t
      | [] => [[c]]

/-- value of a run of ASCII decimal digits (none: a non-digit) -/
def digitsVal : List Char → Nat → Option Nat
  | [], acc => some acc
  | c :: cs, acc => if '0' ≤ c ∧ c ≤ '9' then digitsVal cs (acc * 10 + (c.toNat - 48)) else none

/-- `strconv.ParseInt(s, 10, 64)` followed by `int(·)`, clamped at 0: optional sign, at least one digit, only
    ASCII digits (no `_` in base 10), range −2^63 … 2^63−1; `none` = an error is returned -/
def parseInt (s : List Char) : Option Nat :=
  match s with
  | [] => none
  | '+' :: r => if r.isEmpty then none else
    match digitsVal r 0 with
    | some n => if n < 9223372036854775808 then some n else none
    | none => none
  | '-' :: r => if r.isEmpty then none else
    match digitsVal r 0 with
    | some n => if n ≤ 9223372036854775808 then some 0 else none
    | none => none
  | r =>
    match digitsVal r 0 with
    | some n => if n < 9223372036854775808 then some n else none
    | none => none

/-- `strings.HasSuffix(s, "c")` and the text before that suffix -/
def stripC (s : List Char) : Option (List Char) :=
  if s.getLast? = some 'c' then some s.dropLast else none

/-- the positions part of one keyword (`strings.Split(nameIndex[1], ",")` and the `switch len(index)`) -/
def parsePositions (name : String) (idx : List (List Char)) : Option Keyword :=
  match idx with
  | [i] =>
    match parseInt i with
    | some n => some ⟨name, 0, n, 0⟩
    | none => none
  | [i1, i2] =>
    match stripC i1 with
    | some c =>
      match parseInt c, parseInt i2 with
      | some nc, some n => some ⟨name, nc, n, 0⟩
      | _, _ => none
    | none =>
      match parseInt i1, parseInt i2 with
      | some n, some np => some ⟨name, 0, n, np⟩
      | _, _ => none
  | [i1, i2, i3] =>
    match stripC i1 with
    | some c =>
      match parseInt c, parseInt i2, parseInt i3 with
      | some nc, some n, some np => some ⟨name, nc, n, np⟩
      | _, _, _ => none
    | none => none
  | _ => none

/-- one `;`-separated item of the flag -/
def parseKeyword (key : List Char) : Option Keyword :=
  match splitOn ':' key with
  | [name] => if name.isEmpty then none else some ⟨String.ofList name, 0, 1, 0⟩
  | [name, positions] =>
    if name.isEmpty then none else parsePositions (String.ofList name) (splitOn ',' positions)
  | _ => none

def parseKeywordsL : List (List Char) → Option (List Keyword)
  | [] => some []
  | k :: ks =>
    match parseKeyword k with
    | none => none
    | some kw =>
      match parseKeywordsL ks with
      | none => none
      | some r => some (kw :: r)

/-- `parseKeywords`: `none` = an error is returned (xtpl dies) -/
def parseKeywords (s : String) : Option (List Keyword) := parseKeywordsL (splitOn ';' s.toList)

/-- default value of the `-keywords` flag -/
def defaultKeywordsFlag : String := "T;N:1,2;N64:1,2;X:1c,2;XN:1c,2,3;XN64:1c,2,3;__;_n:1,2;_x:1c,2;_xn:1c,2,3"

/-! ## `getFnName`, `isStringLiteral` -/

/-- `getFnName`; `none` = the Go function returns `""` (the listener then ignores the call) -/
def fnName : E → Option String
  | .name s => if s = "" then none else some s
  | .paren e => fnName e
  | .field _ _ n => if n = "" then none else some n
  | _ => none

/-- `unquote` -/
def unquote (text : String) : String :=
  match EV.decodeStr text with
  | .ok s => s
  | _ => ""

/-- `isStringLiteral`: `some s` = `(s, true)`; only a bare string literal counts (not a parenthesised one) -/
def strLit : E → Option String
  | .lit kind text => if kind = "str" then some (unquote text) else none
  | _ => none

/-! ## `doExtract` -/

structure Entry where
  ctx : String
  id : String
  plural : String
  occ : Nat            -- the `#: file:line:col` reference (abstract); meaningful iff `cited`
  cited : Bool := true -- false: the entry has no reference comment (never produced by `doExtract`)
deriving Repr, DecidableEq, Inhabited

/-- the reference comments of one freshly extracted entry (`entry.MsgCmts`) -/
def Entry.refs (e : Entry) : List Nat := if e.cited then [e.occ] else []

/-- the decoded literal at 1-based position `i` (`""` when `i = 0` or the argument is not a string literal) -/
def litAt (args : List E) (i : Nat) : String :=
  if i = 0 then "" else
  match args[i - 1]? with
  | some a => (strLit a).getD ""
  | none => ""

/-- is the argument at 1-based position `i` a string literal? -/
def litAt? (args : List E) (i : Nat) : Option String :=
  match args[i - 1]? with
  | some a => strLit a
  | none => none

/-- `doExtract` for one keyword on a call `fn(args)`; `occ i` = reference of the argument at position `i`.
    Nothing is added for another function name, with too few arguments (`maxArgs > count`), for a keyword without
    msgid position (`kw.MsgID < 1`, e.g. `-keywords T:0`), for a msgid argument that is not a string literal, and
    for an empty msgid without context -/
def doExtract (kw : Keyword) (fn : String) (args : List E) (occ : Nat → Nat) : List Entry :=
  if kw.name ≠ fn then [] else
  if kw.maxArg > args.length then [] else
  if kw.id = 0 then [] else
  let ctx := litAt args kw.ctx
  let plural := litAt args kw.plural
  match litAt? args kw.id with
  | none => []
  | some s => if s = "" ∧ ctx = "" then [] else [⟨ctx, s, plural, occ kw.id, true⟩]

/-- `EnterPrimaryExpr` on a node `callee(args)`: nothing without a callee name or without arguments,
    otherwise `doExtract` for every keyword in keyword order -/
def extractCall (kws : List Keyword) (callee : E) (args : List E) (occ : Nat → Nat) : List Entry :=
  match fnName callee with
  | none => []
  | some fn => if args.isEmpty then [] else kws.flatMap fun kw => doExtract kw fn args occ

/-! ## the tree walk -/

mutual
/-- the call nodes of an expression in the order `antlr.ParseTreeWalker` enters them (pre-order, children left
    to right: a call node first, then the calls of its callee, then those of its arguments) -/
def calls : E → List E
  | .lit _ _ => []
  | .name _ => []
  | .paren e => calls e
  | .un _ e => calls e
  | .bin _ l r => calls l ++ calls r
  | .cond c a b => calls c ++ (calls a ++ calls b)
  | .field e _ _ => calls e
  | .index e i => calls e ++ calls i
  | .slice e lo hi cap => calls e ++ (callsO lo ++ (callsO hi ++ callsO cap))
  | .call f as ell => .call f as ell :: (calls f ++ callsL as)
def callsL : List E → List E
  | [] => []
  | a :: as => calls a ++ callsL as
def callsO : Option E → List E
  | none => []
  | some e => calls e
end

/-- the listener on one entered node -/
def extractNode (kws : List Keyword) (occ : Nat → Nat) : E → List Entry
  | .call f as _ => extractCall kws f as occ
  | _ => []

/-- the listener over a list of entered nodes, numbered from `n` -/
def extractFrom (kws : List Keyword) (pos : Nat → Nat → Nat) : Nat → List E → List Entry
  | _, [] => []
  | n, c :: cs => extractNode kws (pos n) c ++ extractFrom kws pos (n + 1) cs

/-- `extractFromTree`: the entries of one compiled expression, in the order the listener appends them -/
def extract (kws : List Keyword) (pos : Nat → Nat → Nat) (e : E) : List Entry :=
  extractFrom kws pos 0 (calls e)

/-- `extract` over all value tokens of all attributes of all nodes of all files, in visiting order -/
def extractMany (kws : List Keyword) : List ((Nat → Nat → Nat) × E) → List Entry
  | [] => []
  | (pos, e) :: ts => extract kws pos e ++ extractMany kws ts

/-! ## `Save` -/

/-- `m[key] = e` after `e.MsgCmts = append(pre.MsgCmts, e.MsgCmts...)`: the stored entry is replaced by the latest
    one, whose references are the old ones followed by its own; a new key goes to the end -/
def upsert {κ : Type} [DecidableEq κ] (k : κ) (e : Entry) (refs : List Nat) :
    List (κ × Entry × List Nat) → List (κ × Entry × List Nat)
  | [] => [(k, e, refs)]
  | (k', e', r') :: t =>
    if k' = k then (k, e, r' ++ refs) :: t else (k', e', r') :: upsert k e refs t

/-- the loop of `Save` for an arbitrary key function: key ↦ (latest entry with that key, all references) with the
    keys in first-occurrence order -/
def mergeBy {κ : Type} [DecidableEq κ] (key : Entry → κ) (es : List Entry) : List (κ × Entry × List Nat) :=
  es.foldl (fun acc e => upsert (key e) e e.refs acc) []

/-- the logical key of an entry -/
def Entry.key (e : Entry) : String × String := (e.ctx, e.id)

/-- `Entry.Key()` of github.com/youthlin/t/translator: `ctxt + "\x04" + msgid` -/
def Entry.goKey (e : Entry) : String := e.ctx ++ "\x04" ++ e.id

/-- the merged catalogue (without the header): (context, msgid) ↦ plural of the LAST occurrence, all references -/
def catalogue (es : List Entry) : List ((String × String) × String × List Nat) :=
  (mergeBy Entry.key es).map fun x => (x.1, x.2.1.plural, x.2.2)

inductive PotEntry
  | header
  | msg (e : Entry) (refs : List Nat)
deriving Repr, DecidableEq

/-- `file.entries[k] = v` -/
def potSet (k : String) (v : PotEntry) : List (String × PotEntry) → List (String × PotEntry)
  | [] => [(k, v)]
  | (k', v') :: t => if k' = k then (k, v) :: t else (k', v') :: potSet k v t

/-- key of the header entry: `key("", "")` -/
def headerKey : String := "\x04"

/-- `Save`: the entry map of the POT file (`pot.AddEntry(header)`, then `pot.AddEntry(e)` for every entry: the
    final value of a key is the last merged entry) -/
def save (es : List Entry) : List (String × PotEntry) :=
  (mergeBy Entry.goKey es).foldl (fun pot x => potSet x.1 (.msg x.2.1 x.2.2) pot) [(headerKey, .header)]

end XT
