/-! # M12 Sys/FsParse — `tplManager.Parse*` over an abstract file tree

Model of `html/manager.go`: `Parse`, `ParseWithSuffix`, `ParseWithRegexp`, `Add`, `addDefinedTpl`,
`Files`, `Templates`, `GetTemplate` (HEAD: the opened file is closed by `defer file.Close()` inside the
`fs.WalkDir` callback).

Abstractions (everything else mirrors the Go control flow statement by statement):

* The walk is what `fs.WalkDir(fsys, ".", cb)` delivers to the callback: a list of entries in walk order
  (lexical), each with the flags the callback can observe. `fsys` is already the sub file system
  (`fs.Sub(fsys, m.subFs)`), so `Entry.path` IS the slash-separated path relative to the configured
  sub-directory; a missing sub-directory shows up as the root entry with `walkErr` (that is how `WalkDir`
  reports it), an invalid sub-directory name (`fs.Sub` error, returned before the walk) is the same
  observable outcome: an error, nothing opened, nothing registered.
* `ParseWithSuffix`/`ParseWithRegexp`/`Parse` differ only in the predicate: `match : String → Bool`.
* Loading a file (scanner + tree builder) is abstracted to `Content`: did it fail, and which `:define`
  attributes does the tree contain, in the pre-order in which `addDefinedTpl` visits them: `some name` for a
  `define` whose name evaluates to `name`, `none` for one whose name FAILS to evaluate (a valueless
  `:define`, `:define="${1/0}"`, an unknown variable).  `addDefinedTpl` returns that evaluation error at
  once, AFTER the file and the fragments before it were registered; nothing is rolled back.
* The two maps `files`/`templates` are modelled as insertion-ordered key lists (Go never deletes or
  overwrites: every insertion is guarded by a membership test, which is the content of C19).

Core-only and executable. -/
namespace FP

/-- what loading (scanning + parsing) an opened file yields -/
structure Content where
  /-- `GetAllTokens` or `ParseTokens` failed (includes a read error while scanning) -/
  loadErr : Bool := false
  /-- the `:define` fragments, document order, nested ones included (pre-order): `some name`, or `none` when
      the name of the fragment fails to evaluate (`attr.Evaluate` returns an error inside `addDefinedTpl`) -/
  defines : List (Option String) := []
deriving Repr, DecidableEq

/-- one invocation of the `fs.WalkDir` callback -/
structure Entry where
  path : String
  isDir : Bool := false
  /-- the callback receives `err ≠ nil` for this entry -/
  walkErr : Bool := false
  /-- `fsys.Open(path)` fails -/
  openErr : Bool := false
  content : Content := {}
deriving Repr, DecidableEq

inductive ErrKind
  | walk | open | load | duplicate
deriving Repr, DecidableEq

inductive Result
  | ok
  | err (k : ErrKind)
deriving Repr, DecidableEq

structure State where
  /-- keys of `m.files`, in registration order -/
  files : List String := []
  /-- keys of `m.templates` (files and fragments, one namespace), in registration order -/
  templates : List String := []
  /-- log: successful `fsys.Open` calls -/
  opens : List String := []
  /-- log: `file.Close` calls -/
  closes : List String := []
deriving Repr, DecidableEq

/-- `addDefinedTpl`, flattened: the fragments are registered one by one; the first one whose name does not
    evaluate aborts with that evaluation error (`attr.Evaluate`'s error is returned as it is: it is NOT the
    duplicate-name error; kind `load`, like every other error of `Add` that is neither a file-system nor a
    duplicate-name error), the first one whose name is taken aborts with the duplicate-name error; in both
    cases everything registered so far STAYS registered. -/
def addDefines (s : State) : List (Option String) → Result × State
  | [] => (.ok, s)
  | none :: _ => (.err .load, s)
  | some d :: ds =>
    if d ∈ s.templates then (.err .duplicate, s)
    else addDefines { s with templates := s.templates ++ [d] } ds

/-- `Add(fileName, reader)`: duplicate check of the file name BEFORE scanning, then load, then register the
    file in both maps, then the fragments. -/
def add (s : State) (name : String) (c : Content) : Result × State :=
  if name ∈ s.templates then (.err .duplicate, s)
  else if c.loadErr then (.err .load, s)
  else addDefines { s with files := s.files ++ [name], templates := s.templates ++ [name] } c.defines

/-- the deferred `file.Close()` runs when the callback returns, whatever `Add` returned -/
def closeFile (p : String) (x : Result × State) : Result × State :=
  (x.1, { x.2 with closes := x.2.closes ++ [p] })

/-- the `fs.WalkDir` callback -/
def visit (m : String → Bool) (s : State) (e : Entry) : Result × State :=
  if e.walkErr then (.err .walk, s)
  else if e.isDir then (.ok, s)
  else if m e.path = false then (.ok, s)
  else if e.openErr then (.err .open, s)
  else closeFile e.path (add { s with opens := s.opens ++ [e.path] } e.path e.content)

/-- `fs.WalkDir`: the first non-nil error returned by the callback stops the walk and is the result -/
def walk (m : String → Bool) (s : State) : List Entry → Result × State
  | [] => (.ok, s)
  | e :: es =>
    match visit m s e with
    | (.ok, s') => walk m s' es
    | (.err k, s') => (.err k, s')

/-- `NewTplManager().Parse(fsys, match)` -/
def run («match» : String → Bool) (entries : List Entry) : Result × State :=
  walk «match» {} entries

/-- `strings.HasSuffix(path, suffix)` (the predicate of `ParseWithSuffix`); on `List Char` so that
    `decide` can evaluate it (byte suffix = character suffix on valid UTF-8) -/
def hasSuffix (suffix path : String) : Bool := suffix.toList.isSuffixOf path.toList

inductive Lookup
  | found | notFound
deriving Repr, DecidableEq

/-- `GetTemplate(name)`: registered trees are never nil, so the lookup succeeds iff the key is present -/
def getTemplate (s : State) (name : String) : Lookup :=
  if name ∈ s.templates then .found else .notFound

/-! ## Specification vocabulary (input-only notions used by the C19 statements) -/

/-- the entry is a non-directory accepted by the matcher -/
def Entry.accepted (m : String → Bool) (e : Entry) : Bool := !e.isDir && m e.path

/-- the fragment names in front of the first `define` whose name fails to evaluate (all of them if there is
    none): the names `addDefinedTpl` gets to see -/
def definedNames : List (Option String) → List String
  | [] => []
  | none :: _ => []
  | some d :: ds => d :: definedNames ds

/-- some `define` of the file has a name that fails to evaluate -/
def Content.nameErr (c : Content) : Bool := c.defines.contains none

/-- the names an accepted file asks to register: its own path, then its fragments up to the first `define`
    whose name fails to evaluate -/
def Entry.names (e : Entry) : List String := e.path :: definedNames e.content.defines

/-- paths of the accepted entries, walk order -/
def acceptedPaths (m : String → Bool) (es : List Entry) : List String :=
  (es.filter (Entry.accepted m)).map (·.path)

/-- all names the accepted entries want to register, walk order -/
def allNames (m : String → Bool) (es : List Entry) : List String :=
  (es.filter (Entry.accepted m)).flatMap Entry.names

/-- no walk error anywhere; no open error, no load error and no failing `define` name at an accepted file -/
def NoFsFault (m : String → Bool) (es : List Entry) : Prop :=
  ∀ e ∈ es, e.walkErr = false ∧
    (e.accepted m = true → e.openErr = false ∧ e.content.loadErr = false ∧ e.content.nameErr = false)

instance (m : String → Bool) (es : List Entry) : Decidable (NoFsFault m es) :=
  inferInstanceAs (Decidable (∀ e ∈ es, e.walkErr = false ∧
    (e.accepted m = true → e.openErr = false ∧ e.content.loadErr = false ∧ e.content.nameErr = false)))

/-- fault-free input: no file-system/load/define-name fault and no name requested twice -/
def Clean (m : String → Bool) (es : List Entry) : Prop :=
  NoFsFault m es ∧ (allNames m es).Nodup

/-- The error entry `e` must produce when `seen` are the names registered by the entries before it;
    the order of the tests is the order in which the Go code can observe the conditions.  The last two: a
    name clash among `e.names` (the path and the fragments in front of the first failing `define` name) is
    met before that failing name; a clash behind it is never seen. -/
def faultOf (m : String → Bool) (seen : List String) (e : Entry) : Option ErrKind :=
  if e.walkErr then some .walk
  else if e.accepted m = false then none
  else if e.openErr then some .open
  else if e.path ∈ seen then some .duplicate
  else if e.content.loadErr then some .load
  else if (seen ++ e.names).Nodup then (if e.content.nameErr then some .load else none)
  else some .duplicate

/-- `fsys.Open` is called on the entry and succeeds (used to state which files are opened) -/
def Entry.opened (m : String → Bool) (e : Entry) : Bool :=
  !e.walkErr && e.accepted m && !e.openErr

end FP
