import TplModel.Exp.Parse
import TplModel.Exp.F64Cmp
namespace EV
open EL (E)

inductive IK | int | int8 | int16 | int32 | int64 | uint | uint8 | uint16 | uint32 | uint64
deriving DecidableEq, Repr

def IK.name : IK → String
  | .int => "int" | .int8 => "int8" | .int16 => "int16" | .int32 => "int32" | .int64 => "int64"
  | .uint => "uint" | .uint8 => "uint8" | .uint16 => "uint16" | .uint32 => "uint32" | .uint64 => "uint64"

inductive Val
  | nil
  | bool (b : Bool)
  | int (k : IK) (v : Int)
  | f64 (x : Float)
  | f32 (x : Float)
  | str (s : String)
  | slice (ty : String) (xs : List Val) (cap : Nat)
  | array (ty : String) (xs : List Val)
  | map (ty : String) (kvs : List (String × Val))
  | struct (ty : String) (fields : List (String × Bool × Bool × Val))   -- name, exported, embedded, value
  | ptr (ty : String) (id : Nat) (target : Option Val)
  | func (id : String)
  | meth (ty : String) (name : String) (recv : Val)
deriving Inhabited

/-- class of the recorded error (the visitor keeps the FIRST one, see `setErr`): whether it wraps the sentinel
    returned by a user function / `exp.ErrNoSuchValue` -/
structure Err where
  sentinel : Bool          -- the error wraps the sentinel returned by a user function
  nosuch : Bool := false   -- the error wraps exp.ErrNoSuchValue
deriving Repr

inductive Out
  | val (v : Val)
  | err (e : Err)          -- Evaluate returned v.error
  | panicked               -- recovered in Evaluate: "recovered from panic"

def wrap64 (i : Int) : Int := (BitVec.ofInt 64 i).toInt

def isInt : Val → Option Int
  | .int .uint64 v => some (wrap64 v)
  | .int .uint v => some (wrap64 v)       -- uint is 64 bits wide on the platforms tpl is built for
  | .int _ v => some v
  | _ => none
def isFloat : Val → Option Float
  | .f64 x => some x
  | .f32 x => some x
  | _ => none

/-- method sets of the harness types -/
def methodsOf (ty : String) (isPtr : Bool) : List String :=
  if ty = "S" then (if isPtr then ["Get", "Fail", "Ok", "Ptr"] else ["Get", "Fail", "Ok"]) else []

inductive Look | found (v : Val) | absent | failed

def parseDecInt (s : String) : Option Int :=
  let cs := s.toList
  let (neg, ds) := match cs with
    | '-' :: r => (true, r)
    | '+' :: r => (false, r)
    | r => (false, r)
  if ds.isEmpty || !ds.all Char.isDigit then none
  else
    let n : Nat := ds.foldl (fun a c => a * 10 + (c.toNat - 48)) 0
    if n > 9223372036854775807 + (if neg then 1 else 0) then none
    else some (if neg then -(n : Int) else n)

mutual
/-- promoted fields: the embedded struct fields are searched in declaration order, each one first among its
    own fields and then among its own embedded structs (one level is all the harness types need) -/
def promotedField : List (String × Bool × Bool × Val) → String → Option (Bool × Val)
  | [], _ => none
  | (_, _, true, v) :: rest, name =>
    match embeddedField v name with
    | some r => some r
    | none => promotedField rest name
  | (_, _, false, _) :: rest, name => promotedField rest name
/-- lookup inside the value of an embedded field (only struct values promote their fields) -/
def embeddedField : Val → String → Option (Bool × Val)
  | .struct _ fs, name =>
    match fs.find? (fun f => f.1 = name) with
    | some f => some (f.2.1, f.2.2.2)
    | none => promotedField fs name
  | _, _ => none
end

/-- reflect's FieldByName on the field list: `(exported, value)` of the field called `name`; total (structural
    recursion through `promotedField`/`embeddedField`) -/
def fieldByName (fields : List (String × Bool × Bool × Val)) (name : String) : Option (Bool × Val) :=
  match fields.find? (fun f => f.1 = name) with
  | some f => some (f.2.1, f.2.2.2)
  | none => promotedField fields name

def getValue (name : String) (from_ : Val) : Look :=
  match from_ with
  | .nil => .absent
  | _ =>
    let meth : Option Val :=
      match from_ with
      | .struct ty _ => if (methodsOf ty false).contains name then some (.meth ty name from_) else none
      | .ptr ty _ _ => if (methodsOf ty true).contains name then some (.meth ty name from_) else none
      | _ => none
    match meth with
    | some m => .found m
    | none =>
      let v := match from_ with
        | .ptr _ _ (some t) => some t
        | .ptr _ _ none => none
        | x => some x
      match v with
      | none => .absent                      -- nil pointer: Elem() is the zero Value → default branch
      | some (.struct _ fs) =>
        match fieldByName fs name with
        | some (exported, x) => if exported then .found x else .failed
        | none => .absent
      | some (.map _ kvs) =>
        match kvs.find? (fun kv => kv.1 = name) with
        | some kv => .found kv.2
        | none => .absent
      | some (.slice _ xs _) | some (.array _ xs) =>
        match parseDecInt name with
        | none => .failed
        | some i =>
          let i := if i < 0 then i + xs.length else i
          if i < 0 then .failed else
          match xs[i.toNat]? with
          | some x => .found x
          | none => .failed
      | _ => .absent

end EV

namespace EV
open EL (E)

structure St where
  err : Option Err := none
  calls : List String := []
  unsupported : Bool := false     -- the run left the modelled fragment (float formatting, unmodelled builtin, …)

abbrev M := StateT St (Except Unit)      -- Except Unit = a panic that unwinds to Evaluate's recover

/-- SetError / SetErrorOnToken: the first recorded error is kept (later ones are dropped) -/
def setErr (sentinel : Bool := false) (nosuch : Bool := false) : M Val := do
  modify fun s => if s.err.isSome then s else { s with err := some ⟨sentinel, nosuch⟩ }
  return .nil
def goPanic : M Val := throw ()
/-- the value is outside the model: the whole run is reported as `unsupported`, never compared -/
def unsupp : M Val := do
  -- also recorded as a (sticky) failure, so that nothing after it is evaluated on a placeholder value: the run is
  -- reported as `unsupported` whatever follows (a later model panic would otherwise lose the flag with the state)
  modify fun s => { s with unsupported := true, err := if s.err.isSome then s.err else some ⟨false, false⟩ }
  return .nil
def hasErr : M Bool := do return (← get).err.isSome
def logCall (s : String) : M Unit := modify fun st => { st with calls := s :: st.calls }

/-- strconv.ParseInt(text, 0, 64) for the literal forms the lexer lets through -/
def parseIntLit (s : String) : Option Int :=
  let cs := s.toList.filter (· ≠ '_')
  let digs (base : Nat) (ds : List Char) : Option Nat :=
    if ds.isEmpty then none else
    ds.foldlM (fun a c =>
      let d := if c.isDigit then c.toNat - 48 else if 'a' ≤ c ∧ c ≤ 'f' then c.toNat - 87 else if 'A' ≤ c ∧ c ≤ 'F' then c.toNat - 55 else 99
      if d < base then some (a * base + d) else none) 0
  let r := match cs with
    | '0' :: 'x' :: r | '0' :: 'X' :: r => digs 16 r
    | '0' :: 'b' :: r | '0' :: 'B' :: r => digs 2 r
    | '0' :: 'o' :: r | '0' :: 'O' :: r => digs 8 r
    | '0' :: r => if r.isEmpty then some 0 else digs 8 r
    | r => digs 10 r
  match r with
  | some n => if n ≤ 9223372036854775807 then some n else none
  | none => none

def hexVal (c : Char) : Nat :=
  if c.isDigit then c.toNat - 48 else if 'a' ≤ c ∧ c ≤ 'f' then c.toNat - 87 else if 'A' ≤ c ∧ c ≤ 'F' then c.toNat - 55 else 0
def hexNum (cs : List Char) : Nat := cs.foldl (fun a c => a * 16 + hexVal c) 0
def octNum (cs : List Char) : Nat := cs.foldl (fun a c => a * 8 + (c.toNat - 48)) 0

/-- result of decoding: `unsupported` = outside the model (a byte ≥ 0x80 written as \x / octal escape would
    make a string that is not valid UTF-8), `bad` = strconv.Unquote fails (the visitor panics, Evaluate recovers) -/
inductive Dec | ok (s : String) | bad | unsupported
deriving Repr, DecidableEq

/-- strconv.Unquote of a double-quoted literal body (everything between the quotes) -/
def unquoteBody : Nat → List Char → List Char → Dec
  | 0, _, _ => .bad
  | _+1, [], acc => .ok (String.ofList acc.reverse)
  | f+1, c :: rest, acc =>
    if c = '"' || c = '\n' then .bad
    else if c = '\\' then
      match rest with
      | 'a' :: r => unquoteBody f r ('\x07' :: acc)
      | 'b' :: r => unquoteBody f r ('\x08' :: acc)
      | 'f' :: r => unquoteBody f r ('\x0c' :: acc)
      | 'n' :: r => unquoteBody f r ('\n' :: acc)
      | 'r' :: r => unquoteBody f r ('\r' :: acc)
      | 't' :: r => unquoteBody f r ('\t' :: acc)
      | 'v' :: r => unquoteBody f r ('\x0b' :: acc)
      | '\\' :: r => unquoteBody f r ('\\' :: acc)
      | '"' :: r => unquoteBody f r ('"' :: acc)
      | 'x' :: a :: b :: r =>
        let n := hexNum [a, b]
        if n < 128 then unquoteBody f r (Char.ofNat n :: acc) else .unsupported
      | 'u' :: a :: b :: c :: d :: r =>
        let n := hexNum [a, b, c, d]
        if 0xD800 ≤ n ∧ n < 0xE000 then .bad else unquoteBody f r (Char.ofNat n :: acc)
      | 'U' :: a :: b :: c :: d :: e :: g :: h :: i :: r =>
        let n := hexNum [a, b, c, d, e, g, h, i]
        if n > 0x10FFFF || (0xD800 ≤ n ∧ n < 0xE000) then .bad else unquoteBody f r (Char.ofNat n :: acc)
      | a :: b :: c :: r =>
        if '0' ≤ a ∧ a ≤ '7' then
          let n := octNum [a, b, c]
          if n > 255 then .bad else if n < 128 then unquoteBody f r (Char.ofNat n :: acc) else .unsupported
        else .bad            -- incl. \' which strconv rejects inside double quotes
      | _ => .bad
    else unquoteBody f rest (c :: acc)

/-- singleQuoteToDouble (exp/visitor.go, copied in cmd/xtpl): body of a single-quoted literal rewritten as the
    body of a double-quoted one: \' ↦ ', a bare " ↦ \", every other escape sequence kept -/
def sq2dq : List Char → List Char
  | [] => []
  | '\\' :: '\'' :: r => '\'' :: sq2dq r
  | '\\' :: d :: r => '\\' :: d :: sq2dq r
  | '"' :: r => '\\' :: '"' :: sq2dq r
  | c :: r => c :: sq2dq r

def decodeStr (text : String) : Dec :=
  let cs := text.toList
  match cs with
  | '`' :: r => .ok (String.ofList ((r.take (r.length - 1)).filter (· ≠ '\r')))   -- Unquote drops \r from raw strings
  | '\'' :: r =>
    let body := sq2dq (r.take (r.length - 1))
    unquoteBody (body.length + 1) body []
  | '"' :: r => unquoteBody r.length (r.take (r.length - 1)) []
  | _ => .bad

/-- strconv.ParseFloat for the literal forms of FLOAT_LIT (decimal with optional exponent, hex mantissa with
    binary exponent, `_` separators); none = outside the model (huge exponents, over-long mantissas) -/
def parseFloatLit (s : String) : Option Float :=
  let cs := s.toList.filter (· ≠ '_')
  let natOf (ds : List Char) : Nat := ds.foldl (fun a c => a * 10 + (c.toNat - 48)) 0
  let intOf (ds : List Char) : Option Int :=
    match ds with
    | '-' :: r => if r.all Char.isDigit && !r.isEmpty then some (-(natOf r : Int)) else none
    | '+' :: r => if r.all Char.isDigit && !r.isEmpty then some (natOf r : Int) else none
    | r => if r.all Char.isDigit && !r.isEmpty then some (natOf r : Int) else none
  match cs with
  | '0' :: x :: rest =>
    if x = 'x' || x = 'X' then
      let (mant, ex) := rest.span (fun c => c ≠ 'p' && c ≠ 'P')
      let (ip, fp0) := mant.span (· ≠ '.')
      let fp := fp0.drop 1
      match intOf (ex.drop 1) with
      | none => none
      | some e =>
        let m := hexNum (ip ++ fp)
        if (ip ++ fp).length > 13 || e.natAbs > 900 then none
        else some ((Float.ofNat m).scaleB (e - 4 * fp.length))
    else decimal cs natOf intOf
  | _ => decimal cs natOf intOf
where
  decimal (cs : List Char) (natOf : List Char → Nat) (intOf : List Char → Option Int) : Option Float :=
    let (mant, ex) := cs.span (fun c => c ≠ 'e' && c ≠ 'E')
    let (ip, fp0) := mant.span (· ≠ '.')
    let fp := fp0.drop 1
    if !(ip ++ fp).all Char.isDigit || (ip ++ fp).isEmpty then none else
    let e : Option Int := if ex.isEmpty then some 0 else intOf (ex.drop 1)
    match e with
    | none => none
    | some e =>
      let m := natOf (ip ++ fp)
      let e10 : Int := e - fp.length
      if (ip ++ fp).length > 30 || e10.natAbs > 400 then none
      else if e10 < 0 then some (Float.ofScientific m true e10.natAbs) else some (Float.ofScientific m false e10.natAbs)

/-- behaviour of a user function placed in the data (the harness builds the same function in Go) -/
structure FnSpec where
  sig : String                 -- Go type string (for `==` between interface values)
  arity : Nat                  -- exact number of parameters
  ret : Val                    -- first result
  second : Option Bool := none -- none: one result; some false: (ret, nil error); some true: (ret, sentinel error)
  panics : Bool := false       -- panics when entered
  twoVals : Bool := false      -- returns (ret, ret): second result is not an error
deriving Inhabited

/-- names bound by the built-in default scope (exp/scope.go) -/
def builtinNames : List String :=
  ["true", "false", "string", "bytes", "runes", "int", "int8", "int16", "int32", "int64", "uint", "uint8", "uint16",
   "uint32", "uint64", "float32", "float64", "duration", "isNil", "notNil", "isNull", "notNull", "len", "cap",
   "print", "printf", "println"]

def scopeGet (frames : List Val) (name : String) : Look :=
  match frames with
  | [] =>
    if name = "true" then .found (.bool true) else if name = "false" then .found (.bool false)
    else if builtinNames.contains name then .found (.func ("builtin:" ++ name)) else .absent
  | fr :: rest =>
    match getValue name fr with
    | .absent => scopeGet rest name
    | r => r

def toInt64 (v : Val) : Option Int := isInt v

/- fmt's %v for the values that reach a compared output; structural recursion over the (nested) value.
   Map entries are formatted first and sorted by key afterwards (the comparison only looks at the keys, so the
   order is the one obtained by sorting the entries themselves). -/
mutual
def fmtV : Val → Option String
  | .nil => some "<nil>"
  | .bool b => some (toString b)
  | .int _ v => some (toString v)
  | .str s => some s
  | .slice _ xs _ => (fmtVs xs).map fun ss => "[" ++ " ".intercalate ss ++ "]"
  | .array _ xs => (fmtVs xs).map fun ss => "[" ++ " ".intercalate ss ++ "]"
  | .map _ kvs =>
    (fmtKVs kvs).map fun ps =>
      let sorted := ps.toArray.qsort (fun a b => a.1 < b.1) |>.toList
      "map[" ++ " ".intercalate (sorted.map fun kv => kv.1 ++ ":" ++ kv.2) ++ "]"
  | _ => none           -- floats, pointers, funcs, structs: %v not modelled
def fmtVs : List Val → Option (List String)
  | [] => some []
  | x :: xs =>
    match fmtV x with
    | none => none
    | some s =>
      match fmtVs xs with
      | none => none
      | some ss => some (s :: ss)
def fmtKVs : List (String × Val) → Option (List (String × String))
  | [] => some []
  | (k, v) :: kvs =>
    match fmtV v with
    | none => none
    | some s =>
      match fmtKVs kvs with
      | none => none
      | some ps => some ((k, s) :: ps)
end

def lenOf : Val → Option Nat
  | .str s => some s.utf8ByteSize
  | .slice _ xs _ => some xs.length
  | .array _ xs => some xs.length
  | .map _ kvs => some kvs.length
  | _ => none

def ikOfName (s : String) : Option IK :=
  [IK.int, .int8, .int16, .int32, .int64, .uint, .uint8, .uint16, .uint32, .uint64].find? (·.name = s)

/-- Go conversion of an integer value to integer kind `k` (two's-complement truncation) -/
def convInt (k : IK) (v : Int) : Int :=
  match k with
  | .int | .int64 => (BitVec.ofInt 64 v).toInt
  | .int32 => (BitVec.ofInt 32 v).toInt
  | .int16 => (BitVec.ofInt 16 v).toInt
  | .int8 => (BitVec.ofInt 8 v).toInt
  | .uint | .uint64 => ((BitVec.ofInt 64 v).toNat : Int)
  | .uint32 => ((BitVec.ofInt 32 v).toNat : Int)
  | .uint16 => ((BitVec.ofInt 16 v).toNat : Int)
  | .uint8 => ((BitVec.ofInt 8 v).toNat : Int)

inductive CallRes
  | results (vs : List Val) (second : Option Bool)   -- entered and returned
  | panicInside                                      -- entered, panicked (callFunc recovers → error)
  | notEntered                                       -- reflect.Call panicked before entering (arity / types)
  | unsupported

/-- call a function value with evaluated arguments -/
def callFn (fns : List (String × FnSpec)) (fn : Val) (args : List Val) : CallRes :=
  match fn, args with
  | .func id, _ =>
    if id.startsWith "builtin:" then
      let name := (id.drop 8).toString
      match name, args with
      | "len", [a] => match lenOf a with | some n => .results [.int .int n] none | none => .panicInside
      | "cap", [a] => match a with
        | .slice _ _ c => .results [.int .int c] none
        | .array _ xs => .results [.int .int xs.length] none
        | _ => .panicInside
      | "isNil", [a] => .results [.bool (match a with | .nil => true | _ => false)] none
      | "notNil", [a] => .results [.bool (match a with | .nil => false | _ => true)] none
      | "string", [a] => match a with
        | .str s => .results [.str s] none
        | .nil | .bool _ | .int _ _ => match fmtV a with | some s => .results [.str s] none | none => .unsupported
        | _ => .unsupported
      | "print", [a] => match a with
        | .str s => .results [.str s] none
        | .nil | .bool _ | .int _ _ => match fmtV a with | some s => .results [.str s] none | none => .unsupported
        | _ => .unsupported
      | _, [a] =>
        match ikOfName name, a with
        | some k, .int _ v => .results [.int k (convInt k v)] none
        | some _, .f64 _ | some _, .f32 _ => .unsupported
        | some _, .nil => .notEntered          -- reflect.Call with a zero Value argument panics
        | some _, _ => .panicInside            -- ReflectConvert panics
        | none, _ => .unsupported
      | _, _ => if ["len", "cap", "isNil", "notNil", "string"].contains name || (ikOfName name).isSome then .notEntered else .unsupported
    else
      match fns.find? (·.1 = id) with
      | none => .unsupported
      | some (_, sp) =>
        if args.length ≠ sp.arity then .notEntered
        else if sp.panics then .panicInside
        else if sp.twoVals then .results [sp.ret, sp.ret] none
        else match sp.second with
          | none => .results [sp.ret] none
          | some b => .results [sp.ret, .nil] (some b)
  | .meth "S" "Get" (.struct _ fs), [] => match fs.find? (·.1 = "A") with | some f => .results [f.2.2.2] none | none => .unsupported
  | .meth "S" "Get" (.ptr _ _ (some (.struct _ fs))), [] => match fs.find? (·.1 = "A") with | some f => .results [f.2.2.2] none | none => .unsupported
  | .meth "S" "Get" (.ptr _ _ none), [] => .notEntered     -- value method through nil pointer: reflect panics
  | .meth "S" "Fail" (.struct _ fs), [] => match fs.find? (·.1 = "A") with | some f => .results [f.2.2.2, .nil] (some true) | none => .unsupported
  | .meth "S" "Fail" (.ptr _ _ (some (.struct _ fs))), [] => match fs.find? (·.1 = "A") with | some f => .results [f.2.2.2, .nil] (some true) | none => .unsupported
  | .meth "S" "Ok" (.struct _ fs), [] => match fs.find? (·.1 = "A") with | some f => .results [f.2.2.2, .nil] (some false) | none => .unsupported
  | .meth "S" "Ok" (.ptr _ _ (some (.struct _ fs))), [] => match fs.find? (·.1 = "A") with | some f => .results [f.2.2.2, .nil] (some false) | none => .unsupported
  | .meth "S" "Ptr" (.ptr _ _ (some (.struct _ fs))), [] =>
    match fs.find? (·.1 = "A") with
    | some (_, _, _, .int k v) => .results [.int k (v + 1)] none
    | _ => .unsupported
  | .meth "S" "Ptr" (.ptr _ _ none), [] => .panicInside    -- entered with a nil receiver, dereferences it
  | .meth _ _ _, _ => .notEntered
  | _, _ => .unsupported

def isFuncVal : Val → Bool
  | .func _ | .meth _ _ _ => true
  | _ => false

def numBin (op : String) (l r : Val) : M Val := do
  match isInt l, isInt r with
  | some a, some b =>
    match op with
    | "*" => return .int .int64 (wrap64 (a * b))
    | "+" => return .int .int64 (wrap64 (a + b))
    | "-" => return .int .int64 (wrap64 (a - b))
    | "/" => if b = 0 then goPanic else return .int .int64 (wrap64 (Int.tdiv a b))
    | _ => goPanic
  | _, _ =>
    let fa := match isInt l with | some a => some (Float.ofInt a) | none => isFloat l
    let fb := match isInt r with | some b => some (Float.ofInt b) | none => isFloat r
    match fa, fb with
    | some a, some b =>
      match op with
      | "*" => return .f64 (a * b)
      | "+" => return .f64 (a + b)
      | "-" => return .f64 (a - b)
      | "/" => return .f64 (a / b)
      | _ => goPanic
    | _, _ => setErr

def intBin (op : String) (l r : Val) : M Val := do
  match isInt l, isInt r with
  | some a, some b =>
    let bv := BitVec.ofInt 64 a
    match op with
    | "%" => if b = 0 then goPanic else return .int .int64 (Int.tmod a b)
    | "&" => return .int .int64 (bv &&& BitVec.ofInt 64 b).toInt
    | "|" => return .int .int64 (bv ||| BitVec.ofInt 64 b).toInt
    | "^" => return .int .int64 (bv ^^^ BitVec.ofInt 64 b).toInt
    | "&^" => return .int .int64 (bv &&& ~~~ (BitVec.ofInt 64 b)).toInt
    | "<<" => if b < 0 then goPanic else return .int .int64 (if b ≥ 64 then 0 else (bv <<< b.toNat).toInt)
    | ">>" => if b < 0 then goPanic else return .int .int64 (if b ≥ 64 then (if a < 0 then -1 else 0) else (bv.sshiftRight b.toNat).toInt)
    | _ => goPanic
  | _, _ => setErr

def tyOf (fns : List (String × FnSpec)) : Val → String
  | .nil => "nil" | .bool _ => "bool" | .int k _ => k.name | .f64 _ => "float64" | .f32 _ => "float32" | .str _ => "string"
  | .slice ty _ _ => ty | .array ty _ => ty | .map ty _ => ty | .struct ty _ => ty | .ptr ty _ _ => "*" ++ ty
  | .func id => (match fns.find? (·.1 = id) with | some (_, sp) => sp.sig | none => id)
  | .meth ty n _ => "meth:" ++ ty ++ "." ++ n

/- Go's `==` on two interface values holding our universe; none = runtime panic (uncomparable type).
   Structural recursion over the first value; arrays are compared element-wise (`ifaceEqs`). -/
mutual
def ifaceEq (fns : List (String × FnSpec)) (a b : Val) : Option Bool :=
  match a, b with
  | .nil, .nil => some true
  | .nil, _ | _, .nil => some false
  | .bool x, .bool y => if tyOf fns a ≠ tyOf fns b then some false else some (x == y)
  | .int _ x, .int _ y => if tyOf fns a ≠ tyOf fns b then some false else some (x == y)
  | .f64 x, .f64 y => if tyOf fns a ≠ tyOf fns b then some false else some (F64.eq x.toBits y.toBits)
  | .f32 x, .f32 y => if tyOf fns a ≠ tyOf fns b then some false else some (F64.eq x.toBits y.toBits)
  | .str x, .str y => if tyOf fns a ≠ tyOf fns b then some false else some (x == y)
  | .ptr _ i _, .ptr _ j _ => if tyOf fns a ≠ tyOf fns b then some false else some (i == j)
  | .array _ xs, .array _ ys => if tyOf fns a ≠ tyOf fns b then some false else ifaceEqs fns xs ys
  | _, _ => if tyOf fns a ≠ tyOf fns b then some false else none   -- slices, maps, funcs, structs with uncomparable fields
/-- all element comparisons must be defined; the result is their conjunction (over the common prefix) -/
def ifaceEqs (fns : List (String × FnSpec)) : List Val → List Val → Option Bool
  | x :: xs, y :: ys =>
    match ifaceEq fns x y, ifaceEqs fns xs ys with
    | some e, some r => some (e && r)
    | _, _ => none
  | _, _ => some true
end

/-- numEqual (exp/visitor.go): numbers are compared by value, whatever Go type carries them.  Float comparisons
    (here, in `relOp` and in `ifaceEq`) are computed on the IEEE-754 bit patterns (`F64.eq`, `F64.rel`:
    `TplModel/Exp/F64Cmp.lean`), which gives exactly the results of the hardware `==`, `<`, … on float64 but is
    transparent to the kernel; `Float.ofInt` (Go's `float64(i)`) stays opaque. -/
def numEq (l r : Val) : Option Bool :=
  match isInt l, isInt r with
  | some a, some b => some (a == b)
  | _, _ =>
    let fa := match isInt l with | some a => some (Float.ofInt a) | none => isFloat l
    let fb := match isInt r with | some b => some (Float.ofInt b) | none => isFloat r
    match fa, fb with
    | some a, some b => some (F64.eq a.toBits b.toBits)
    | _, _ => none

def relOp (fns : List (String × FnSpec)) (op : String) (l r : Val) : M Val := do
  match op with
  | "==" => match numEq l r with
    | some b => return .bool b
    | none => match ifaceEq fns l r with | some b => return .bool b | none => goPanic
  | "!=" => match numEq l r with
    | some b => return .bool !b
    | none => match ifaceEq fns l r with | some b => return .bool !b | none => goPanic
  | _ =>
    let cmp {α} [LT α] [DecidableRel (α := α) (· < ·)] [BEq α] (a b : α) : Bool :=
      match op with
      | "<" => decide (a < b) | "<=" => decide (a < b) || a == b
      | ">" => decide (b < a) | _ => decide (b < a) || a == b
    match isInt l, isInt r with
    | some a, some b => return .bool (cmp a b)
    | _, _ =>
      let fa := match isInt l with | some a => some (Float.ofInt a) | none => isFloat l
      let fb := match isInt r with | some b => some (Float.ofInt b) | none => isFloat r
      match fa, fb with
      | some a, some b =>
        return .bool (F64.rel op a.toBits b.toBits)
      | _, _ =>
        match l, r with
        | .str a, .str b => return .bool (cmp a b)
        | _, _ => setErr

/-! ## the tree walk

`eval` is total: structural recursion over the (nested) syntax tree, with `evalArgs` for argument lists and
`evalOpt` for the optional slice bounds.  Everything that is not a recursive call lives in the named step
functions below, which take the (not yet run) evaluations of the sub-expressions as monadic arguments. -/

/-- every `Visit…` starts with `if v.error != nil { return nil }` -/
def guardErr (m : M Val) : M Val := do
  if ← hasErr then return .nil else m

/-- VisitLiteral -/
def evalLit (kind text : String) : M Val :=
  match kind with
  | "nil" => guardErr (pure .nil)
  | "int" => guardErr (match parseIntLit text with | some v => pure (.int .int64 v) | none => goPanic)
  | "float" => guardErr (match parseFloatLit text with | some v => pure (.f64 v) | none => unsupp)
  | "str" => guardErr (match decodeStr text with
    | .ok s => pure (.str s)
    | .bad => goPanic
    | .unsupported => unsupp)
  | "imag" => guardErr unsupp      -- complex values are outside the model
  | _ => goPanic

/-- result of a lookup (`Scope.Get`, `getValue`) turned into a value or a recorded error -/
def lookRes : Look → M Val
  | .found v => pure v
  | .absent => setErr false true
  | .failed => setErr

/-- unOp -/
def unOp (op : String) (v : Val) : M Val :=
  match op with
  | "+" => match isInt v with
    | some a => pure (.int .int64 a)
    | none => match isFloat v with | some x => pure (.f64 x) | none => setErr
  | "-" => match isInt v with
    | some a => pure (.int .int64 (wrap64 (-a)))
    | none => match isFloat v with | some x => pure (.f64 (-x)) | none => setErr
  | "!" => match v with | .bool b => pure (.bool !b) | _ => setErr
  | "^" => match isInt v with | some a => pure (.int .int64 (~~~ (BitVec.ofInt 64 a)).toInt) | none => setErr
  | "*" => match v with
    | .ptr _ _ (some t) => pure t
    | .ptr _ _ none => goPanic
    | _ => setErr
  | "&" => goPanic
  | _ => setErr

/-- logOp: both operands evaluated, both must be bool -/
def logOp (f : Bool → Bool → Bool) (a b : Val) : M Val :=
  match a, b with
  | .bool x, .bool y => pure (.bool (f x y))
  | _, _ => setErr

/-- `&&` after the left operand: `false` short-circuits, anything else evaluates the right operand -/
def andStep (a : Val) (mr : M Val) : M Val :=
  match a with
  | .bool false => pure (.bool false)
  | _ => do let b ← mr; logOp (· && ·) a b

/-- `||` after the left operand: `true` short-circuits -/
def orStep (a : Val) (mr : M Val) : M Val :=
  match a with
  | .bool true => pure (.bool true)
  | _ => do let b ← mr; logOp (· || ·) a b

/-- mulOp / addOp / relOp on two evaluated operands -/
def binOp (fns : List (String × FnSpec)) (op : String) (a b : Val) : M Val :=
  if ["*", "/"].contains op then numBin op a b
  else if ["%", "<<", ">>", "&", "&^"].contains op then intBin op a b
  else if op = "+" then
    match a, b with
    | .str x, .str y => pure (.str (x ++ y))
    | .str _, _ | _, .str _ =>
      match fmtV a, fmtV b with
      | some x, some y => pure (.str (x ++ y))
      | _, _ => unsupp
    | _, _ => numBin op a b
  else if op = "-" then numBin op a b
  else if ["|", "^"].contains op then intBin op a b
  else relOp fns op a b

/-- a binary expression: `ml`, `mr` are the evaluations of the operands -/
def binStep (fns : List (String × FnSpec)) (op : String) (ml mr : M Val) : M Val :=
  if op = "&&" then do let a ← ml; andStep a mr
  else if op = "||" then do let a ← ml; orStep a mr
  else do let a ← ml; let b ← mr; binOp fns op a b

/-- `c ? a : b` after the condition -/
def condStep (c : Val) (ma mb : M Val) : M Val :=
  match c with
  | .bool true => ma
  | .bool false => mb
  | _ => setErr

/-- `pv[iv]` -/
def indexOp (pv iv : Val) : M Val :=
  let name? := match isInt iv with
    | some v => some (toString v)          -- any integer kind (IsInt)
    | none => match iv with
      | .str s => some s
      | _ => none
  match name? with
  | none => setErr
  | some n => lookRes (getValue n pv)

/-- an array value is copied to an addressable variable and sliced like a slice whose cap is its length -/
def asSlice : Val → Option (String × List Val × Nat)
  | .slice sty xs c => some (sty, xs, c)
  | .array aty xs => some ("[]" ++ String.ofList ((aty.toList.dropWhile (· ≠ ']')).drop 1), xs, xs.length)
  | _ => none

/-- `pv[lo:hi]` / `pv[lo:hi:cap]`; `glo d`, `ghi d`, `gcap d` evaluate a bound whose default is `d` -/
def sliceStep (pv : Val) (glo ghi gcap : Int → M (Option Int)) (hasCap : Bool) : M Val :=
  match asSlice pv with
  | some (sty, xs, c) => do
    match ← glo 0 with
    | none => setErr
    | some s =>
      match ← ghi xs.length with
      | none => setErr
      | some en =>
        if !hasCap then
          if 0 ≤ s ∧ s ≤ en ∧ en ≤ c then
            if en.toNat ≤ xs.length then pure (.slice sty ((xs.drop s.toNat).take (en.toNat - s.toNat)) (c - s.toNat))
            else unsupp    -- beyond len within cap: needs the backing array, not modelled
          else goPanic
        else
          match ← gcap 0 with
          | none => setErr
          | some m =>
            if 0 ≤ s ∧ s ≤ en ∧ en ≤ m ∧ m ≤ c then
              if en.toNat ≤ xs.length then pure (.slice sty ((xs.drop s.toNat).take (en.toNat - s.toNat)) (m.toNat - s.toNat))
              else unsupp
            else goPanic
  | none => setErr

/-- callFunc and the treatment of its results -/
def invoke (fns : List (String × FnSpec)) (pv : Val) (vs : List Val) : M Val := do
  let nm := match pv with | .func id => id | .meth _ n _ => n | _ => "?"
  -- only user functions placed in the data log their calls (methods of the harness types do not)
  let isUserFn := match pv with | .func id => !id.startsWith "builtin:" | _ => false
  match callFn fns pv vs with
  | .unsupported => unsupp
  | .notEntered => setErr
  | .panicInside =>
    if isUserFn then logCall nm
    setErr
  | .results rs second =>
    if isUserFn then logCall nm
    match rs, second with
    | [r], none => pure r
    | [_, _], none => setErr
    | [r, _], some sentinel => if sentinel then setErr true else pure r
    | _, _ => setErr

/-- `f(args...)`: the last argument must be a slice, its elements are appended -/
def callFinish (fns : List (String × FnSpec)) (pv : Val) (vs : List Val) (ell : Bool) : M Val :=
  if ell then
    match vs.getLast? with
    | some (.slice _ xs _) => invoke fns pv (vs.dropLast ++ xs)
    | _ => setErr
  else invoke fns pv vs

/-- a call after the callee: `margs` evaluates the argument list (VisitExpressionList) -/
def callStep (fns : List (String × FnSpec)) (pv : Val) (noArgs ell : Bool) (margs : M (List Val)) : M Val := do
  -- a failed callee expression ends the evaluation of the call: nothing is looked up, nothing is called
  if ← hasErr then return .nil
  if !isFuncVal pv then setErr
  else if noArgs then callFinish fns pv [] ell
  else do
    if ← hasErr then return .nil
    let vs ← margs
    if ← hasErr then return .nil
    callFinish fns pv vs ell

mutual
def eval (fns : List (String × FnSpec)) (data : List Val) : E → M Val
  | .lit kind text => evalLit kind text
  | .name n => guardErr (lookRes (scopeGet data n))
  | .paren e => guardErr (eval fns data e)
  | .un op e => guardErr (do let v ← eval fns data e; unOp op v)
  | .bin op l r => guardErr (binStep fns op (eval fns data l) (eval fns data r))
  | .cond c a b => guardErr (do let cv ← eval fns data c; condStep cv (eval fns data a) (eval fns data b))
  | .field e _ n => guardErr (do let pv ← eval fns data e; lookRes (getValue n pv))
  | .index e i => guardErr (do let pv ← eval fns data e; let iv ← eval fns data i; indexOp pv iv)
  | .slice e lo hi cap => guardErr (do
      let pv ← eval fns data e
      sliceStep pv (fun d => evalOpt fns data lo d) (fun d => evalOpt fns data hi d) (fun d => evalOpt fns data cap d)
        cap.isSome)
  | .call e args ell => guardErr (do
      let pv ← eval fns data e
      callStep fns pv args.isEmpty ell (evalArgs fns data args))
/-- VisitExpressionList: all arguments, left to right -/
def evalArgs (fns : List (String × FnSpec)) (data : List Val) : List E → M (List Val)
  | [] => pure []
  | a :: rest => do
    let v ← eval fns data a
    let vs ← evalArgs fns data rest
    pure (v :: vs)
/-- an optional slice bound: absent = the default, otherwise the expression must yield an integer of any kind -/
def evalOpt (fns : List (String × FnSpec)) (data : List Val) : Option E → Int → M (Option Int)
  | none, dflt => pure (some dflt)
  | some ex, _ => do
    let v ← eval fns data ex
    pure (isInt v)
end

def canon : Val → String
  | .nil => "nil"
  | .bool b => s!"bool:{b}"
  | .int k v => s!"{k.name}:{v}"
  | .f64 x => s!"float64:{x.toBits}"
  | .f32 x => s!"float32:{x.toBits}"
  | .str s => s!"string:{EL.hexOf s}"
  | .slice _ _ _ => "slice"
  | .array _ _ => "array"
  | .map _ _ => "map"
  | .struct ty _ => s!"struct:{ty}"
  | .ptr ty _ _ => s!"ptr:{ty}"
  | .func _ => "func"
  | .meth _ _ _ => "func"

def canonDeep : Val → String
  | .slice _ xs _ => "[" ++ " ".intercalate (xs.map canon) ++ "]"
  | v => canon v

end EV
