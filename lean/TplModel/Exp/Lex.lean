namespace EL

/-- visible tokens of GoLexer.g4 that the expression grammar can see -/
inductive Tok
  | ident (s : String)
  | kw (s : String)            -- Go keywords: never accepted by the expression grammar
  | nil_
  | int (s : String)
  | float (s : String)
  | imag (s : String)
  | str (s : String)           -- raw text incl. quotes
  | op (s : String)
  | eos (s : String)
  | junk (s : String)          -- BYTE_VALUE & friends
  | lexerr                     -- token recognition error reached here (the lexer is pulled lazily)
deriving Repr, DecidableEq, Inhabited

inductive LexRes
  | ok (ts : List Tok)
  | err                         -- token recognition error (ANTLR reports it, ParseCode rejects)
  | unsupported                 -- outside the modelled alphabet (non-ASCII outside strings/comments)
deriving Repr

def keywords : List String :=
  ["break","default","func","interface","select","case","defer","go","map","struct","chan","else","goto",
   "package","switch","const","fallthrough","if","range","type","continue","for","import","return","var"]
def nlKeywords : List String := ["break","fallthrough","continue","return"]

/-- operator / punctuation literals; longest match wins -/
def ops : List String :=
  ["(",")","{","}","[","]","=",",",";",":",".","++","--",":=","...","?","?.","||","&&","==","!=","<","<=",">",">=",
   "|","/","%","<<",">>","&^","~","!","+","-","^","*","&","<-"]
def nlOps : List String := [")","}","]","++","--"]

def isLetter (c : Char) : Bool := c.isAlpha || c = '_'
def isDec (c : Char) : Bool := c.isDigit
def isHex (c : Char) : Bool := c.isDigit || ('a' ≤ c && c ≤ 'f') || ('A' ≤ c && c ≤ 'F')
def isOct (c : Char) : Bool := '0' ≤ c && c ≤ '7'
def isBin (c : Char) : Bool := c = '0' || c = '1'

/-- ('_'? D)+ : number of chars matched (0 = no match) -/
def digitsU (d : Char → Bool) : List Char → Nat
  | '_' :: c :: rest => if d c then 2 + digitsU d rest else 0
  | c :: rest => if d c then 1 + digitsU d rest else 0
  | [] => 0

/-- D ('_'? D)*  -/
def decimals (cs : List Char) : Nat :=
  match cs with
  | c :: rest => if isDec c then 1 + digitsU isDec rest else 0
  | [] => 0

/-- [eE] [+-]? DECIMALS -/
def exponent (e1 e2 : Char) (cs : List Char) : Nat :=
  match cs with
  | c :: rest =>
    if c = e1 || c = e2 then
      match rest with
      | s :: rest' =>
        if s = '+' || s = '-' then (let n := decimals rest'; if n = 0 then 0 else 2 + n)
        else (let n := decimals rest; if n = 0 then 0 else 1 + n)
      | [] => 0
    else 0
  | [] => 0

def decimalLit (cs : List Char) : Nat :=
  match cs with
  | '0' :: _ => 1
  | c :: rest => if isDec c then 1 + digitsU isDec rest else 0
  | [] => 0
def prefixedLit (a b : Char) (d : Char → Bool) (optionalPrefix : Bool) (cs : List Char) : Nat :=
  match cs with
  | '0' :: c :: rest =>
    if c = a || c = b then (let n := digitsU d rest; if n = 0 then (if optionalPrefix then (let m := digitsU d (c :: rest); if m = 0 then 0 else 1 + m) else 0) else 2 + n)
    else if optionalPrefix then (let m := digitsU d (c :: rest); if m = 0 then 0 else 1 + m) else 0
  | _ => 0

def decimalFloat (cs : List Char) : Nat :=
  let n := decimals cs
  let a :=
    if n = 0 then 0 else
      match cs.drop n with
      | '.' :: rest =>
        let m := decimals rest
        let e := exponent 'e' 'E' (rest.drop m)
        n + 1 + m + e
      | rest => let e := exponent 'e' 'E' rest; if e = 0 then 0 else n + e
  let b :=
    match cs with
    | '.' :: rest => let m := decimals rest; if m = 0 then 0 else 1 + m + exponent 'e' 'E' (rest.drop m)
    | _ => 0
  max a b

/-- '0' [xX] HEX_MANTISSA HEX_EXPONENT -/
def hexFloat (cs : List Char) : Nat :=
  match cs with
  | '0' :: x :: rest =>
    if x = 'x' || x = 'X' then
      let m1 := digitsU isHex rest
      let mant1 :=    -- ('_'? H)+ ('.' ('_'? H)*)?
        if m1 = 0 then 0 else
          match rest.drop m1 with
          | '.' :: r2 => m1 + 1 + digitsU isHex r2
          | _ => m1
      -- longest-match subtlety: also try without the fractional part
      let cand (mant : Nat) : Nat :=
        if mant = 0 then 0 else
          let e := exponent 'p' 'P' (rest.drop mant)
          if e = 0 then 0 else 2 + mant + e
      let mant2 :=    -- '.' H ('_'? H)*
        match rest with
        | '.' :: h :: r2 => if isHex h then 2 + digitsU isHex r2 else 0
        | _ => 0
      max (max (cand mant1) (cand m1)) (cand mant2)
    else 0
  | _ => 0

def hexN (n : Nat) (cs : List Char) : Bool := cs.length ≥ n && (cs.take n).all isHex

/-- ESCAPED_VALUE : number of chars after the backslash, 0 if none -/
def escaped (cs : List Char) : Nat :=
  match cs with
  | 'u' :: rest => if hexN 4 rest then 5 else 0
  | 'U' :: rest => if hexN 8 rest then 9 else 0
  | 'x' :: rest => if hexN 2 rest then 3 else 0
  | c :: rest =>
    if "abfnrtv\\'\"".toList.contains c then 1
    else if isOct c then (match rest with | a :: b :: _ => if isOct a && isOct b then 3 else 0 | _ => 0)
    else 0
  | [] => 0

/-- body of an interpreted / single-quoted string after the opening quote: total length incl. closing quote -/
def strBody (q : Char) : Nat → List Char → Option Nat
  | 0, _ => none
  | _+1, [] => none
  | f+1, c :: rest =>
    if c = q then some 1
    else if c = '\\' then
      let n := escaped rest
      if n = 0 then none else (strBody q f (rest.drop n)).map (· + 1 + n)
    else (strBody q f rest).map (· + 1)

def takeWhileN (p : Char → Bool) (cs : List Char) : Nat := (cs.takeWhile p).length

/-- index just after the first occurrence of "*/" -/
def commentEnd : List Char → Option Nat
  | '*' :: '/' :: _ => some 2
  | _ :: rest => (commentEnd rest).map (· + 1)
  | [] => none

def longestOp (cs : List Char) : Option String :=
  (ops.filter (fun o => o.toList.isPrefixOf cs)).foldl
    (fun best o => match best with | none => some o | some b => if o.length > b.length then some o else some b) none

/-- one token in default mode: (token?, hidden, consumed, nextModeIsNL) -/
def lexDefault (cs : List Char) : Option (Option Tok × Nat × Bool) :=
  match cs with
  | [] => none
  | c :: rest =>
    if c = ' ' || c = '\t' then some (none, takeWhileN (fun c => c = ' ' || c = '\t') cs, false)
    else if c = '\r' || c = '\n' then some (none, takeWhileN (fun c => c = '\r' || c = '\n') cs, false)
    else if c = '/' && rest.head? = some '/' then some (none, takeWhileN (fun c => c ≠ '\r' && c ≠ '\n') cs, false)
    else if c = '/' && rest.head? = some '*' && (commentEnd (rest.drop 1)).isSome then
      some (none, 2 + (commentEnd (rest.drop 1)).getD 0, false)
    else if c = '/' && rest.head? = some '*' then none   -- a comment that is never closed: syntax error (as in Go)
    else if isLetter c then
      let n := takeWhileN (fun c => isLetter c || isDec c) cs
      let s := String.mk (cs.take n)
      if s = "nil" then some (some .nil_, n, true)
      else if keywords.contains s then some (some (.kw s), n, nlKeywords.contains s)
      else some (some (.ident s), n, true)
    else if c = '`' then
      let n := takeWhileN (fun c => c ≠ '`') rest
      if n < rest.length then some (some (.str (String.mk (cs.take (n + 2)))), n + 2, true) else none
    else if c = '"' || c = '\'' then
      match strBody c (rest.length + 1) rest with
      | some n => some (some (.str (String.mk (cs.take (n + 1)))), n + 1, true)
      | none => none
    else if c = '\\' then
      -- BYTE_VALUE / OCTAL_BYTE_VALUE / HEX_BYTE_VALUE / LITTLE_U_VALUE / BIG_U_VALUE
      match rest with
      | 'u' :: r => if hexN 4 r then some (some (.junk "u"), 6, false) else none
      | 'U' :: r => if hexN 8 r then some (some (.junk "U"), 10, false) else none
      | 'x' :: r => if hexN 2 r then some (some (.junk "x"), 4, false) else none
      | a :: b :: d :: _ => if isOct a && isOct b && isOct d then some (some (.junk "o"), 4, false) else none
      | _ => none
    else
      -- numbers (longest of the literal forms, then optional 'i'), else operators
      let cands : List (Nat × (String → Tok)) :=
        [(decimalLit cs, Tok.int), (prefixedLit 'b' 'B' isBin false cs, Tok.int), (prefixedLit 'o' 'O' isOct true cs, Tok.int),
         (prefixedLit 'x' 'X' isHex false cs, Tok.int), (max (decimalFloat cs) (hexFloat cs), Tok.float)]
      let best := cands.foldl (fun (b : Nat × (String → Tok)) (x : Nat × (String → Tok)) => if x.1 > b.1 then x else b) (0, Tok.int)
      -- IMAGINARY_LIT: any numeric literal followed by 'i' (try every candidate, longest total wins)
      let imag := cands.foldl (fun (b : Nat) (x : Nat × (String → Tok)) =>
        if x.1 > 0 && (cs.drop x.1).head? = some 'i' && x.1 + 1 > b then x.1 + 1 else b) 0
      let opLen := match longestOp cs with | some o => o.length | none => 0
      if imag > best.1 && imag > opLen then some (some (.imag (String.mk (cs.take imag))), imag, true)
      else if best.1 > 0 && best.1 ≥ opLen then some (some (best.2 (String.mk (cs.take best.1))), best.1, true)
      else match longestOp cs with
        | some o => some (some (.op o), o.length, nlOps.contains o)
        | none => none

/-- one step in NLSEMI mode: (token?, consumed, staysInNL) ; consumed = 0 is the OTHER rule -/
def lexNL (cs : List Char) : Option Tok × Nat × Bool :=
  match cs with
  | [] => (none, 0, false)
  | c :: rest =>
    if c = ' ' || c = '\t' then (none, takeWhileN (fun c => c = ' ' || c = '\t') cs, true)
    else if c = '\r' || c = '\n' then
      let n := takeWhileN (fun c => c = '\r' || c = '\n') cs
      (some (.eos (String.mk (cs.take n))), n, false)
    else if c = ';' then (some (.eos ";"), 1, false)
    else if c = '/' && rest.head? = some '/' then (none, takeWhileN (fun c => c ≠ '\r' && c ≠ '\n') cs, true)
    else if c = '/' && rest.head? = some '*' then
      match commentEnd (rest.drop 1) with
      | some n =>
        let body := (rest.drop 1).take n
        if body.any (fun c => c = '\r' || c = '\n') then (some (.eos (String.mk (cs.take (2 + n)))), 2 + n, false)
        else (none, 2 + n, true)
      | none => (none, 0, false)
    else (none, 0, false)

def lexAll : Nat → Bool → List Char → List Tok → LexRes
  | 0, _, _, _ => .err
  | _+1, _, [], acc => .ok acc.reverse
  | f+1, nl, cs, acc =>
    if nl then
      let (t, n, stay) := lexNL cs
      let acc := match t with | some t => t :: acc | none => acc
      lexAll f stay (cs.drop n) acc
    else
      match lexDefault cs with
      | none => if cs.head!.toNat ≥ 128 then .unsupported else .ok (Tok.lexerr :: acc).reverse
      | some (t, n, nl') =>
        let acc := match t with | some t => t :: acc | none => acc
        lexAll f nl' (cs.drop n) acc

def lex (s : String) : LexRes :=
  let cs := s.toList
  if cs.any (fun c => c.toNat ≥ 128) && false then .unsupported else lexAll (2 * cs.length + 2) false cs []

end EL
