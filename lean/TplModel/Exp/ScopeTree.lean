import TplModel.Exp.Eval
/-! # Scope trees — the public `Scope` API of `exp/scope.go` as a binary tree

`NewScope data` is a leaf, `Combine s p` a node (child `s`, parent `p`), `WithDefaultScope s = Combine s defaultScope`.
`Scope.get` mirrors `scope.Get` / `combineScope.Get`: the parent is consulted **only** when the child's answer is
`Look.absent` (Go: `errors.Is(e, ErrNoSuchValue)`); `found _` (any value, incl. nil) and `failed` are returned as is.

Everything is parametric in the leaf lookup `gv : String → Val → Look` (`getWith`), `get` is the instance at
`EV.getValue`. Core-only, executable. -/
namespace EV

inductive Scope
  | leaf (data : Val)
  | combine (child parent : Scope)
deriving Inhabited

/-- the first answer that is not `absent`; `absent` when all are -/
def firstNonAbsent : List Look → Look
  | [] => .absent
  | .absent :: rest => firstNonAbsent rest
  | r :: _ => r

/-- `combineScope.Get`'s decision: fall through to the parent only on `absent` -/
def Look.orElse (r : Look) (parent : Look) : Look :=
  match r with
  | .absent => parent
  | r => r

namespace Scope

/-- `Get` with an arbitrary leaf lookup -/
def getWith (gv : String → Val → Look) : Scope → String → Look
  | .leaf d, n => gv n d
  | .combine c p, n =>
    match getWith gv c n with
    | .absent => getWith gv p n
    | r => r

/-- `Scope.Get` (exp/scope.go) -/
def get (sc : Scope) (n : String) : Look := getWith getValue sc n

/-- the data of the leaves in lookup order: child first -/
def inorder : Scope → List Val
  | .leaf d => [d]
  | .combine c p => inorder c ++ inorder p

/-- right-nested chain `Combine(f₁, Combine(f₂, … Combine(f_k, last)))` -/
def chain (frames : List Val) (last : Scope) : Scope :=
  match frames with
  | [] => last
  | f :: rest => .combine (.leaf f) (chain rest last)

end Scope

/-! ## the public constructors -/

/-- the Go type string of `map[string]any` as the harness prints it -/
def anyMapTy : String := "map[string]interface {}"

/-- the data of `defaultScope` (exp/scope.go): a `map[string]any` whose keys are `builtinNames` -/
def builtinFrame : Val :=
  .map anyMapTy (("true", .bool true) :: ("false", .bool false) ::
    (builtinNames.drop 2).map fun n => (n, .func ("builtin:" ++ n)))

/-- `NewScope(data)`: nil data is replaced by an empty map -/
def NewScope (data : Val) : Scope :=
  match data with
  | .nil => .leaf (.map anyMapTy [])
  | d => .leaf d
def EmptyScope : Scope := NewScope (.map anyMapTy [])
def Combine (s p : Scope) : Scope := .combine s p
def defaultScope : Scope := NewScope builtinFrame
def WithDefaultScope (s : Scope) : Scope := Combine s defaultScope

/-- rebuild a tree through the public constructors only -/
def Scope.viaApi : Scope → Scope
  | .leaf d => NewScope d
  | .combine c p => Combine (viaApi c) (viaApi p)

end EV
