import TplModel.Exp.F64Cmp
/-! Agreement test of `F64.eq/lt/le/gt/ge` with Lean's native `Float` comparisons (which are the C `double`
    operators, i.e. exactly what Go's float64 operators compute).  NOT imported by anything; run with
    `lake env lean TplModel/Exp/F64CmpTest.lean`.  Expected output: `(true, 0, N)` (all N² pairs agree on all five
    operators, no mismatches) followed by a few individual rows. -/
namespace F64Test

/-- interesting bit patterns -/
def pats : List UInt64 := [
  0x0000000000000000,  -- +0
  0x8000000000000000,  -- -0
  0x0000000000000001,  -- smallest positive subnormal
  0x8000000000000001,  -- smallest negative subnormal
  0x000FFFFFFFFFFFFF,  -- largest subnormal
  0x800FFFFFFFFFFFFF,
  0x0010000000000000,  -- smallest positive normal
  0x8010000000000000,
  0x3FF0000000000000,  -- 1.0
  0xBFF0000000000000,  -- -1.0
  0x3FF0000000000001,  -- nextafter 1.0
  0x3FEFFFFFFFFFFFFF,  -- prev 1.0
  0x4000000000000000,  -- 2.0
  0xC000000000000000,  -- -2.0
  0x3FD3333333333333,  -- 0.3
  0x3FD3333333333334,  -- 0.1 + 0.2
  0x3FB999999999999A,  -- 0.1
  0x3FC999999999999A,  -- 0.2
  0x7FEFFFFFFFFFFFFF,  -- MaxFloat64
  0xFFEFFFFFFFFFFFFF,  -- -MaxFloat64
  0x7FF0000000000000,  -- +Inf
  0xFFF0000000000000,  -- -Inf
  0x7FF8000000000000,  -- quiet NaN
  0xFFF8000000000000,  -- negative quiet NaN
  0x7FF0000000000001,  -- signalling NaN, smallest payload
  0xFFF0000000000001,
  0x7FFFFFFFFFFFFFFF,  -- NaN, all ones
  0xFFFFFFFFFFFFFFFF,
  0x43E0000000000000,  -- 2^63
  0xC3E0000000000000,  -- -2^63
  0x4340000000000000,  -- 2^53
  0x4340000000000001   -- 2^53 + 2
]

/-- computed values too (through the FPU), so that the patterns are not only literals -/
def computed : List UInt64 :=
  [(0.1 + 0.2 : Float).toBits, (0.3 : Float).toBits, (1.0 / 0.0 : Float).toBits, (-1.0 / 0.0 : Float).toBits,
   (0.0 / 0.0 : Float).toBits, (Float.sqrt (-1.0)).toBits, (-0.0 : Float).toBits, (Float.ofInt (-3)).toBits,
   (Float.ofInt 9223372036854775807).toBits, (Float.ofScientific 5 true 324).toBits, (1e308 * 10).toBits]

def all : List UInt64 := pats ++ computed

/-- the five native results -/
def native (a b : UInt64) : List Bool :=
  let x := Float.ofBits a; let y := Float.ofBits b
  [x == y, decide (x < y), decide (x ≤ y), decide (x > y), decide (x ≥ y)]

def model (a b : UInt64) : List Bool := [F64.eq a b, F64.lt a b, F64.le a b, F64.gt a b, F64.ge a b]

def mismatches : List (UInt64 × UInt64) :=
  (all.flatMap fun a => all.map fun b => (a, b)).filter fun (a, b) => native a b != model a b

/-- NaN classification agrees with `Float.isNaN`, Inf with `Float.isInf` -/
def classOk : Bool :=
  all.all fun a => F64.isNaN a == (Float.ofBits a).isNaN && F64.isInf a == (Float.ofBits a).isInf
    && F64.isZero a == (Float.ofBits a == 0.0)

#eval (classOk, mismatches.length, all.length)
#eval mismatches
-- 0.1 + 0.2 vs 0.3: [eq, lt, le, gt, ge]
#eval (model (0.1 + 0.2 : Float).toBits (0.3 : Float).toBits, native (0.1 + 0.2 : Float).toBits (0.3 : Float).toBits)
-- +0 vs -0
#eval (model 0x0000000000000000 0x8000000000000000, native 0x0000000000000000 0x8000000000000000)
-- NaN vs NaN, NaN vs 1.0
#eval (model 0x7FF8000000000000 0x7FF8000000000000, native 0x7FF8000000000000 0x7FF8000000000000)
#eval (model 0x7FF8000000000000 0x3FF0000000000000, native 0x7FF8000000000000 0x3FF0000000000000)
-- -Inf vs -MaxFloat64, subnormal vs 0
#eval (model 0xFFF0000000000000 0xFFEFFFFFFFFFFFFF, native 0xFFF0000000000000 0xFFEFFFFFFFFFFFFF)
#eval (model 0x8000000000000001 0x0000000000000000, native 0x8000000000000001 0x0000000000000000)

/-- a pseudo-random sweep (xorshift64) over 20000 pairs, biased towards equal exponents by masking -/
def sweep (n : Nat) : Nat := Id.run do
  let mut s : UInt64 := 0x9E3779B97F4A7C15
  let mut bad := 0
  for i in [0:n] do
    s := s ^^^ (s <<< 13); s := s ^^^ (s >>> 7); s := s ^^^ (s <<< 17)
    let a := s
    s := s ^^^ (s <<< 13); s := s ^^^ (s >>> 7); s := s ^^^ (s <<< 17)
    let b := if i % 3 == 0 then (a &&& 0xFFF0000000000000) ||| (s &&& 0x000000000000000F)
             else if i % 3 == 1 then a ^^^ (s &&& 0x8000000000000003) else s
    if native a b != model a b then bad := bad + 1
    if F64.isNaN a != (Float.ofBits a).isNaN then bad := bad + 1
  return bad

#eval sweep 20000   -- expected 0

end F64Test
