import TplModel.Exp.Eval
/-! # Encoders for string literals of the expression language (property C14)

`encodeDQ`, `encodeSQ`, `encodeRaw` write an arbitrary string (a `List Char`, i.e. a sequence of Unicode scalar
values) as a literal in one of the three quoting styles of `GoLexer.g4`
(INTERPRETED_STRING_LIT, SINGER_QUOT_STRING_LIT, RAW_STRING_LIT).  Core-only and executable.

Only escapes that denote scalar values < 0x80 are produced (`\\ \" \' \n \r \t \xHH` with HH < 0x80), so
`EV.decodeStr` never answers `unsupported` on an encoder output. -/
namespace ENC

/-- lower-case hexadecimal digit of `d` (meaningful for `d < 16`) -/
def hexDigit (d : Nat) : Char :=
  if d < 10 then Char.ofNat (48 + d) else Char.ofNat (87 + d)

/-- control characters that are written as `\xHH` (the named ones `\n \r \t` are handled before) -/
def isCtl (c : Char) : Bool := c.toNat < 0x20 || c.toNat = 0x7F

/-- one character inside a literal delimited by the quote `q` -/
def encodeChar (q : Char) (c : Char) : List Char :=
  if c = '\\' then ['\\', '\\']
  else if c = q then ['\\', q]
  else if c = '\n' then ['\\', 'n']
  else if c = '\r' then ['\\', 'r']
  else if c = '\t' then ['\\', 't']
  else if isCtl c then ['\\', 'x', hexDigit (c.toNat / 16), hexDigit (c.toNat % 16)]
  else [c]

/-- the text between the quotes -/
def encodeBody (q : Char) : List Char → List Char
  | [] => []
  | c :: s => encodeChar q c ++ encodeBody q s

/-- `"…"` : `\` `"` newline, carriage return, tab and the other control characters escaped, the rest literal -/
def encodeDQ (s : List Char) : List Char := '"' :: (encodeBody '"' s ++ ['"'])

/-- `'…'` : as `encodeDQ` but `'` is escaped and `"` is left bare -/
def encodeSQ (s : List Char) : List Char := '\'' :: (encodeBody '\'' s ++ ['\''])

/-- back-quoted raw literal; faithful only for strings containing neither a back-quote nor a carriage return -/
def encodeRaw (s : List Char) : List Char := '`' :: (s ++ ['`'])

/-- which strings have a raw literal -/
def rawOk (s : List Char) : Bool := !s.contains '`' && !s.contains '\r'


/-! ## Reference reading of a quoted body, parametric in the quote character

`unquoteQ q lenient` decodes the text between two quotes `q`: a bare `q` or a newline is rejected, `\q` stands
for `q`; the *other* quote may appear bare, and `\other` is accepted only when `lenient`.
`unquoteQ '"' false` is `EV.unquoteBody` (strconv.Unquote; theorem `ENC.unquoteBody_eq`);
`unquoteQ '\'' true` is what the implementation computes for single-quoted literals (theorem `C14.sq2dq_correct`);
`unquoteQ '\'' false` would be the exact mirror image of Go's rule (it rejects `'\"'`, the implementation does not).
As in `EV.unquoteBody`, hex/octal digits are not re-validated (the lexer has done it). -/

section Reading
open EV

inductive EscRes | ch (c : Char) (rest : List Char) | bad | unsupported
deriving Repr, DecidableEq

def simpleEsc (d : Char) : Option Char :=
  if d = 'a' then some '\x07' else if d = 'b' then some '\x08' else if d = 'f' then some '\x0c'
  else if d = 'n' then some '\n' else if d = 'r' then some '\r' else if d = 't' then some '\t'
  else if d = 'v' then some '\x0b' else if d = '\\' then some '\\' else none

def escX : List Char → EscRes
  | a :: b :: r => if hexNum [a, b] < 128 then .ch (Char.ofNat (hexNum [a, b])) r else .unsupported
  | _ => .bad
def escU4 : List Char → EscRes
  | a :: b :: c :: e :: r =>
    if 0xD800 ≤ hexNum [a, b, c, e] ∧ hexNum [a, b, c, e] < 0xE000 then .bad else .ch (Char.ofNat (hexNum [a, b, c, e])) r
  | _ => .bad
def escU8 : List Char → EscRes
  | a :: b :: c :: e :: g :: h :: i :: j :: r =>
    if hexNum [a, b, c, e, g, h, i, j] > 0x10FFFF || (0xD800 ≤ hexNum [a, b, c, e, g, h, i, j] ∧ hexNum [a, b, c, e, g, h, i, j] < 0xE000) then .bad
    else .ch (Char.ofNat (hexNum [a, b, c, e, g, h, i, j])) r
  | _ => .bad
def escOct (d : Char) : List Char → EscRes
  | b :: c :: r =>
    if octNum [d, b, c] > 255 then .bad else if octNum [d, b, c] < 128 then .ch (Char.ofNat (octNum [d, b, c])) r else .unsupported
  | _ => .bad

def decEsc1 (q : Char) (lenient : Bool) (d : Char) (r : List Char) : EscRes :=
  match simpleEsc d with
  | some ch => .ch ch r
  | none =>
    if d = '"' || d = '\'' then (if d = q || lenient then .ch d r else .bad)
    else if d = 'x' then escX r
    else if d = 'u' then escU4 r
    else if d = 'U' then escU8 r
    else if '0' ≤ d ∧ d ≤ '7' then escOct d r
    else .bad

def decEsc (q : Char) (lenient : Bool) : List Char → EscRes
  | [] => .bad
  | d :: r => decEsc1 q lenient d r

def escCont (k : List Char → Char → Dec) : EscRes → Dec
  | .ch c r => k r c
  | .bad => .bad
  | .unsupported => .unsupported

def unquoteQ (q : Char) (lenient : Bool) : Nat → List Char → List Char → Dec
  | 0, _, _ => .bad
  | _+1, [], acc => .ok (String.ofList acc.reverse)
  | f+1, c :: rest, acc =>
    if c = q || c = '\n' then .bad
    else if c = '\\' then escCont (fun r ch => unquoteQ q lenient f r (ch :: acc)) (decEsc q lenient rest)
    else unquoteQ q lenient f rest (c :: acc)

end Reading

end ENC
