/-! # IEEE-754 binary64 comparison on the 64-bit pattern

Lean's `Float` is opaque to the kernel, so `a == b`, `a < b` … on `Float` cannot be reasoned about.  The six Go
comparison operators on `float64` (`exp/visitor.go`: `numEqual`, `relOp3[float64]`) depend only on the bit pattern
of the operands, so the model compares the patterns (`Float.toBits`) with the functions below, which are ordinary
total functions on `UInt64` the kernel can unfold.

Layout (IEEE-754 binary64): bit 63 = sign, bits 62..52 = biased exponent (11 bits), bits 51..0 = mantissa.
 * NaN  = exponent all ones (2047) and mantissa ≠ 0  ⇔  magnitude (bits 62..0) > 0x7FF0000000000000;
 * ±Inf = magnitude 0x7FF0000000000000; ±0 = magnitude 0;
 * for non-NaN values the numeric order is the sign-magnitude order of the patterns, with +0 = −0.

`key` embeds the non-NaN patterns into `Int` (−magnitude for negative patterns, +magnitude otherwise: both zeros
map to 0), so every law is a fact about `Int` order.  Core-only. -/
namespace F64

/-- bit 63 -/
def sign (b : UInt64) : Bool := decide (2^63 ≤ b.toNat)

/-- bits 62..52: the biased exponent -/
def expo (b : UInt64) : Nat := (b.toNat / 2^52) % 2^11

/-- bits 51..0 -/
def mant (b : UInt64) : Nat := b.toNat % 2^52

/-- bits 62..0: the pattern with the sign cleared -/
def mag (b : UInt64) : Nat := b.toNat % 2^63

/-- exponent all ones and mantissa ≠ 0 -/
def isNaN (b : UInt64) : Bool := expo b == 2047 && mant b != 0

/-- exponent all ones and mantissa = 0 -/
def isInf (b : UInt64) : Bool := expo b == 2047 && mant b == 0

/-- +0 (0x0000000000000000) or −0 (0x8000000000000000) -/
def isZero (b : UInt64) : Bool := mag b == 0

/-- order embedding of the non-NaN patterns into `Int`; both zeros map to 0 -/
def key (b : UInt64) : Int := if sign b then -(mag b : Int) else (mag b : Int)

/-- neither operand is a NaN -/
def ordered (a b : UInt64) : Bool := !isNaN a && !isNaN b

/-- Go / IEEE-754 `==` -/
def eq (a b : UInt64) : Bool := ordered a b && key a == key b
/-- Go / IEEE-754 `<` -/
def lt (a b : UInt64) : Bool := ordered a b && decide (key a < key b)
/-- Go / IEEE-754 `<=` -/
def le (a b : UInt64) : Bool := ordered a b && decide (key a ≤ key b)
/-- Go / IEEE-754 `>` -/
def gt (a b : UInt64) : Bool := ordered a b && decide (key b < key a)
/-- Go / IEEE-754 `>=` -/
def ge (a b : UInt64) : Bool := ordered a b && decide (key b ≤ key a)
/-- Go `!=` -/
def ne (a b : UInt64) : Bool := !eq a b

/-- the four ordering operators of `relOp3[float64]` by operator text (like the model's `relOp`, any other text is
    treated as `>=`; the parser only produces the six) -/
def rel (op : String) (a b : UInt64) : Bool :=
  match op with
  | "<" => lt a b
  | "<=" => le a b
  | ">" => gt a b
  | _ => ge a b

/-! ## basic facts about the fields -/

/-- NaN ⇔ the magnitude is above the pattern of +Inf -/
theorem isNaN_iff_mag (b : UInt64) : isNaN b = true ↔ 0x7FF0000000000000 < mag b := by
  have hb : b.toNat < 2^64 := b.toNat_lt
  simp only [isNaN, expo, mant, mag, Bool.and_eq_true, beq_iff_eq, bne_iff_ne, ne_eq]
  omega

theorem isNaN_eq_decide (b : UInt64) : isNaN b = decide (0x7FF0000000000000 < mag b) := by
  rw [Bool.eq_iff_iff, isNaN_iff_mag, decide_eq_true_iff]

theorem isInf_iff_mag (b : UInt64) : isInf b = true ↔ mag b = 0x7FF0000000000000 := by
  have hb : b.toNat < 2^64 := b.toNat_lt
  simp only [isInf, expo, mant, mag, Bool.and_eq_true, beq_iff_eq]
  omega

theorem mag_lt (b : UInt64) : mag b < 2^63 := Nat.mod_lt _ (by decide)

/-- the pattern is determined by sign and magnitude -/
theorem toNat_eq (b : UInt64) : b.toNat = (if sign b then 2^63 else 0) + mag b := by
  have hb : b.toNat < 2^64 := b.toNat_lt
  simp only [sign, mag, decide_eq_true_eq]
  split <;> omega

theorem key_eq_zero_iff (b : UInt64) : key b = 0 ↔ isZero b = true := by
  simp only [key, isZero, beq_iff_eq]
  split <;> omega

/-- equal keys: the same pattern, or the two zeros -/
theorem key_eq_key_iff (a b : UInt64) : key a = key b ↔ a = b ∨ (isZero a = true ∧ isZero b = true) := by
  constructor
  · intro h
    by_cases hz : mag a = 0
    · right
      have : key a = 0 := (key_eq_zero_iff a).2 (by simp [isZero, hz])
      exact ⟨(key_eq_zero_iff a).1 this, (key_eq_zero_iff b).1 (h ▸ this)⟩
    · left
      apply UInt64.toNat_inj.1
      rw [toNat_eq a, toNat_eq b]
      simp only [key] at h
      cases hsa : sign a <;> cases hsb : sign b <;> simp only [hsa, hsb, if_true, if_false, Bool.false_eq_true] at h ⊢ <;>
        omega
  · rintro (rfl | ⟨ha, hb⟩)
    · rfl
    · rw [(key_eq_zero_iff a).2 ha, (key_eq_zero_iff b).2 hb]

end F64
