import TplModel.Exp.Eval
/-! # Pure, total re-statements of the integer operator semantics of `exp/visitor.go`

`TplModel/Exp/Eval.lean` gives the operators as monadic functions (`M Val`, a `StateT St (Except Unit)`):
`numBin` (binaryOp3/biOp3), `intBin` (binaryOpInt/biOpInt), `numEq` (numEqual) and `relOp` (relOp/relOp3).
This file restates their INTEGER fragment (both operands satisfy `isInt`) as plain functions into the three-way
result type `R`, and proves that the monadic functions agree with the plain ones (`numBin_int`, `intBin_int`,
`relOp_int`, `relOp_eq`, `relOp_ne`, the wrong-kind lemmas).  Core-only; nothing here changes `Eval.lean`.

`Float` arithmetic is opaque to the kernel, so nothing is said here about results that involve a float; the
wrong-kind lemmas only need `isFloat _ = none`.  Float COMPARISONS are computed on bit patterns (`Exp/F64Cmp.lean`);
their agreement lemmas (`numEq_float`, `relOp_float`) are in `Proofs/FloatOps.lean`. -/
namespace EV

/-- outcome of one operator application: a value, a recorded error (`SetErrorOnToken`, the visitor returns nil),
    or a Go run-time panic (recovered by `Evaluate` into an error) -/
inductive R
  | val (v : Val)
  | err
  | panic

/-- the monadic computation an outcome stands for -/
def R.toM : R → M Val
  | .val v => pure v
  | .err => setErr
  | .panic => goPanic

/-- the precise monadic result of an outcome in state `st` -/
def R.run (st : St) : R → Except Unit (Val × St)
  | .val v => .ok (v, st)
  | .err => .ok (.nil, if st.err.isSome then st else { st with err := some { sentinel := false } })
  | .panic => .error ()

theorem R.run_toM (r : R) (st : St) : r.toM.run st = r.run st := by
  cases r <;> rfl

theorem R.run_val (v : Val) (st : St) : (R.val v).run st = .ok (v, st) := rfl
theorem R.run_panic (st : St) : R.panic.run st = .error () := rfl
/-- with no pending error the recorded error is the plain (non-sentinel) one and the returned value is nil -/
theorem R.run_err {st : St} (h : st.err = none) :
    R.err.run st = .ok (.nil, { st with err := some { sentinel := false } }) := by
  simp [R.run, h]

/-! ## the int64 range, well-formed integer values -/

/-- `i` is representable as a Go int64 -/
def inI64 (i : Int) : Prop := -2^63 ≤ i ∧ i < 2^63

instance (i : Int) : Decidable (inI64 i) := by unfold inI64; infer_instance

/-- the values a Go variable of integer kind `k` can hold (`int`/`uint` are 64 bit wide on the modelled platform) -/
def IK.holds (k : IK) (v : Int) : Prop :=
  match k with
  | .int | .int64 => -2^63 ≤ v ∧ v < 2^63
  | .int32 => -2^31 ≤ v ∧ v < 2^31
  | .int16 => -2^15 ≤ v ∧ v < 2^15
  | .int8 => -2^7 ≤ v ∧ v < 2^7
  | .uint | .uint64 => 0 ≤ v ∧ v < 2^64
  | .uint32 => 0 ≤ v ∧ v < 2^32
  | .uint16 => 0 ≤ v ∧ v < 2^16
  | .uint8 => 0 ≤ v ∧ v < 2^8

instance (k : IK) (v : Int) : Decidable (IK.holds k v) := by
  cases k <;> (simp only [IK.holds]; infer_instance)

/-- two's-complement representation of `i` in 64 bits, as a natural number below 2^64 -/
def tc64 (i : Int) : Nat := (i % 2^64).toNat

/-! ## plain operator functions (integer fragment) -/

/-- biOp3[int64]: `* + - /`; any other operator text is the "assert error" panic -/
def intArith (op : String) (a b : Int) : R :=
  match op with
  | "*" => .val (.int .int64 (wrap64 (a * b)))
  | "+" => .val (.int .int64 (wrap64 (a + b)))
  | "-" => .val (.int .int64 (wrap64 (a - b)))
  | "/" => if b = 0 then .panic else .val (.int .int64 (wrap64 (Int.tdiv a b)))
  | _ => .panic

/-- biOpInt: `% & | ^ &^ << >>` on int64 -/
def intBits (op : String) (a b : Int) : R :=
  match op with
  | "%" => if b = 0 then .panic else .val (.int .int64 (Int.tmod a b))
  | "&" => .val (.int .int64 (BitVec.ofInt 64 a &&& BitVec.ofInt 64 b).toInt)
  | "|" => .val (.int .int64 (BitVec.ofInt 64 a ||| BitVec.ofInt 64 b).toInt)
  | "^" => .val (.int .int64 (BitVec.ofInt 64 a ^^^ BitVec.ofInt 64 b).toInt)
  | "&^" => .val (.int .int64 (BitVec.ofInt 64 a &&& ~~~ (BitVec.ofInt 64 b)).toInt)
  | "<<" => if b < 0 then .panic else .val (.int .int64 (if b ≥ 64 then 0 else (BitVec.ofInt 64 a <<< b.toNat).toInt))
  | ">>" => if b < 0 then .panic else
      .val (.int .int64 (if b ≥ 64 then (if a < 0 then -1 else 0) else ((BitVec.ofInt 64 a).sshiftRight b.toNat).toInt))
  | _ => .panic

/-- numEqual / relOp3[int64]: the six comparison operators on int64.  (Like the model's `relOp`, any other operator
    text is treated as `>=`; the parser only produces the six.) -/
def intRel (op : String) (a b : Int) : Bool :=
  match op with
  | "==" => a == b
  | "!=" => !(a == b)
  | "<" => decide (a < b)
  | "<=" => decide (a < b) || a == b
  | ">" => decide (b < a)
  | _ => decide (b < a) || a == b

/-- unOp on an int64 operand: `+ - ^`.  NOTE: the unary cases of the model live inside `EV.eval`, which is a
    `partial def` and therefore opaque to the kernel: no agreement lemma with `eval` can be stated.  `intUn`
    copies the three integer cases of `eval`'s `.un` branch literally. -/
def intUn (op : String) (a : Int) : R :=
  match op with
  | "+" => .val (.int .int64 a)
  | "-" => .val (.int .int64 (wrap64 (-a)))
  | "^" => .val (.int .int64 (~~~ (BitVec.ofInt 64 a)).toInt)
  | _ => .err

/-- `==` on arbitrary values: numbers by value, everything else by Go interface equality; `none` = the
    comparison panics (uncomparable dynamic type) -/
def eqRes (fns : List (String × FnSpec)) (l r : Val) : Option Bool :=
  match numEq l r with
  | some b => some b
  | none => ifaceEq fns l r

/-! ## agreement of the monadic model with the plain functions -/

/-- which values `isInt` accepts: exactly the ten integer kinds; uint64 is converted lossily -/
theorem isInt_eq_some {v : Val} {a : Int} :
    isInt v = some a ↔ ∃ k x, v = .int k x ∧ a = (if k = .uint64 ∨ k = .uint then wrap64 x else x) := by
  constructor
  · intro h
    cases v with
    | int k x =>
      refine ⟨k, x, rfl, ?_⟩
      cases k <;> simp_all [isInt]
    | _ => simp [isInt] at h
  · rintro ⟨k, x, rfl, rfl⟩
    cases k <;> simp [isInt]

theorem isInt_int (k : IK) (x : Int) : isInt (.int k x) = some (if k = .uint64 ∨ k = .uint then wrap64 x else x) :=
  isInt_eq_some.2 ⟨k, x, rfl, rfl⟩

theorem isInt_none_of_not_int {v : Val} (h : ∀ k x, v ≠ .int k x) : isInt v = none := by
  cases v with
  | int k x => exact absurd rfl (h k x)
  | _ => rfl

theorem numBin_int {op : String} {l r : Val} {a b : Int} (hl : isInt l = some a) (hr : isInt r = some b) :
    numBin op l r = (intArith op a b).toM := by
  unfold numBin
  simp only [hl, hr]
  split
  · rfl
  · rfl
  · rfl
  · show _ = (if b = 0 then R.panic else _).toM
    split <;> rfl
  · unfold intArith
    split <;> first | contradiction | rfl

theorem intBin_int {op : String} {l r : Val} {a b : Int} (hl : isInt l = some a) (hr : isInt r = some b) :
    intBin op l r = (intBits op a b).toM := by
  unfold intBin
  simp only [hl, hr]
  split
  · show _ = (if b = 0 then R.panic else _).toM
    split <;> rfl
  · rfl
  · rfl
  · rfl
  · rfl
  · show _ = (if b < 0 then R.panic else _).toM
    split <;> rfl
  · show _ = (if b < 0 then R.panic else _).toM
    split <;> rfl
  · unfold intBits
    split <;> first | contradiction | rfl

/-- an operand that is neither an integer nor a float makes `numBin` record an error, whatever the operator and
    whatever the other operand is -/
theorem numBin_wrong_left {op : String} {l r : Val} (hi : isInt l = none) (hf : isFloat l = none) :
    numBin op l r = R.err.toM := by
  unfold numBin
  simp only [hi, hf]
  cases isInt r <;> cases isFloat r <;> rfl

theorem numBin_wrong_right {op : String} {l r : Val} (hi : isInt r = none) (hf : isFloat r = none) :
    numBin op l r = R.err.toM := by
  unfold numBin
  simp only [hi, hf]
  cases isInt l <;> cases isFloat l <;> rfl

/-- the integer-only operators record an error as soon as one operand is not an integer (floats included) -/
theorem intBin_wrong_left {op : String} {l r : Val} (hi : isInt l = none) : intBin op l r = R.err.toM := by
  unfold intBin
  simp only [hi]
  rfl

theorem intBin_wrong_right {op : String} {l r : Val} (hi : isInt r = none) : intBin op l r = R.err.toM := by
  unfold intBin
  simp only [hi]
  cases isInt l <;> rfl

theorem numEq_int {l r : Val} {a b : Int} (hl : isInt l = some a) (hr : isInt r = some b) :
    numEq l r = some (a == b) := by
  simp only [numEq, hl, hr]

theorem eqRes_int {fns : List (String × FnSpec)} {l r : Val} {a b : Int}
    (hl : isInt l = some a) (hr : isInt r = some b) : eqRes fns l r = some (a == b) := by
  simp only [eqRes, numEq_int hl hr]

/-- `==` for ALL values -/
theorem relOp_eq (fns : List (String × FnSpec)) (l r : Val) :
    relOp fns "==" l r = (match eqRes fns l r with | some x => R.val (.bool x) | none => R.panic).toM := by
  unfold relOp eqRes
  simp only
  cases numEq l r with
  | some b => rfl
  | none => simp only; cases ifaceEq fns l r <;> rfl

/-- `!=` for ALL values -/
theorem relOp_ne (fns : List (String × FnSpec)) (l r : Val) :
    relOp fns "!=" l r = (match eqRes fns l r with | some x => R.val (.bool (!x)) | none => R.panic).toM := by
  unfold relOp eqRes
  simp only
  cases numEq l r with
  | some b => rfl
  | none => simp only; cases ifaceEq fns l r <;> rfl

/-- all six comparison operators on two integer-valued operands (of any kinds) -/
theorem relOp_int {fns : List (String × FnSpec)} {op : String} {l r : Val} {a b : Int}
    (hl : isInt l = some a) (hr : isInt r = some b) :
    relOp fns op l r = (R.val (.bool (intRel op a b))).toM := by
  unfold relOp
  split
  · simp only [numEq, hl, hr]; rfl
  · simp only [numEq, hl, hr]; rfl
  · simp only [hl, hr]
    show pure _ = pure _
    congr 2
    split
    · rfl
    · rfl
    · rfl
    · unfold intRel
      split <;> first | contradiction | rfl

/-- an ordering operator records an error unless both operands are numbers or both are strings:
    `hn` = one operand is not a number, `hs` = they are not both strings -/
theorem relOp_ord_wrong {fns : List (String × FnSpec)} {op : String} {l r : Val}
    (hop : op ≠ "==" ∧ op ≠ "!=")
    (hn : (isInt l = none ∧ isFloat l = none) ∨ (isInt r = none ∧ isFloat r = none))
    (hs : ∀ s t, ¬ (l = .str s ∧ r = .str t)) :
    relOp fns op l r = R.err.toM := by
  unfold relOp
  split
  · exact absurd rfl hop.1
  · exact absurd rfl hop.2
  · rcases hn with ⟨hi, hf⟩ | ⟨hi, hf⟩
    · simp only [hi, hf]
      cases isInt r <;> cases isFloat r <;> (try simp only) <;> split <;>
        first | (exact absurd ⟨rfl, rfl⟩ (hs _ _)) | rfl
    · simp only [hi, hf]
      cases isInt l <;> cases isFloat l <;> (try simp only) <;> split <;>
        first | (exact absurd ⟨rfl, rfl⟩ (hs _ _)) | rfl

end EV
