import TplModel.Exp.Lex
import TplModel.Generated.Facts
namespace EL

inductive E
  | lit (kind : String) (text : String)
  | name (s : String)
  | paren (e : E)
  | un (op : String) (e : E)
  | bin (op : String) (l r : E)
  | cond (c a b : E)
  | field (e : E) (safe : Bool) (name : String)
  | index (e : E) (i : E)
  | slice (e : E) (lo hi cap : Option E)
  | call (e : E) (args : List E) (ellipsis : Bool)
deriving Repr, Inhabited

/-- unary operators and binary precedence levels are read from the table the fact translator extracts from the
    generated parser (`Precpred(ctx, k)` of each alternative of `expression`) on every run -/
def unaryOps : List String := Facts.unaryOps
def binPrec (o : String) : Option Nat :=
  ((Facts.exprAlts.filter (fun a => a.2.1 ≠ ["?", ":"])).find? (fun a => a.2.1.contains o)).map (·.1)
/-- level of the right operand of a binary alternative, of the unary operand, and of the three parts of ?: -/
def binRhs (o : String) : Option Nat :=
  ((Facts.exprAlts.filter (fun a => a.2.1 ≠ ["?", ":"])).find? (fun a => a.2.1.contains o)).bind (·.2.2.head?)
def condAlt : Nat × Nat × Nat :=
  match Facts.exprAlts.find? (fun a => a.2.1 = ["?", ":"]) with
  | some (k, _, [a, b]) => (k, a, b)
  | _ => (1, 0, 2)

abbrev P := Option (E × List Tok)

mutual
def expr : Nat → Nat → List Tok → P
  | 0, _, _ => none
  | f+1, p, ts =>
    match ts with
    | .op o :: rest =>
      if unaryOps.contains o then
        match expr f Facts.unaryOperandLevel rest with
        | some (e, ts') => loop f p (.un o e) ts'
        | none => none
      else
        match primary f ts with
        | some (e, ts') => loop f p e ts'
        | none => none
    | _ =>
      match primary f ts with
      | some (e, ts') => loop f p e ts'
      | none => none
def loop : Nat → Nat → E → List Tok → P
  | 0, _, _, _ => none
  | f+1, p, lhs, ts =>
    match ts with
    | .op "?" :: rest =>
      if p ≤ condAlt.1 then
        match expr f condAlt.2.1 rest with
        | some (a, .op ":" :: rest') =>
          match expr f condAlt.2.2 rest' with
          | some (b, rest'') => loop f p (.cond lhs a b) rest''
          | none => none
        | _ => none
      else some (lhs, ts)
    | .op o :: rest =>
      match binPrec o with
      | some k =>
        if p ≤ k then
          match expr f ((binRhs o).getD (k + 1)) rest with
          | some (r, rest') => loop f p (.bin o lhs r) rest'
          | none => none
        else some (lhs, ts)
      | none => some (lhs, ts)
    | _ => some (lhs, ts)
def primary : Nat → List Tok → P
  | 0, _ => none
  | f+1, ts =>
    match ts with
    | .nil_ :: rest => suffix f (.lit "nil" "nil") rest
    | .int s :: rest => suffix f (.lit "int" s) rest
    | .float s :: rest => suffix f (.lit "float" s) rest
    | .imag s :: rest => suffix f (.lit "imag" s) rest
    | .str s :: rest => suffix f (.lit "str" s) rest
    | .ident s :: rest => suffix f (.name s) rest
    | .op "(" :: rest =>
      match expr f 0 rest with
      | some (e, .op ")" :: rest') => suffix f (.paren e) rest'
      | _ => none
    | _ => none
def suffix : Nat → E → List Tok → P
  | 0, _, _ => none
  | f+1, e, ts =>
    match ts with
    | .op "." :: .ident n :: rest => suffix f (.field e false n) rest
    | .op "?." :: .ident n :: rest => suffix f (.field e true n) rest
    | .op "." :: _ => none
    | .op "?." :: _ => none
    | .op "[" :: rest =>
      -- lo?
      let loR : Option (Option E × List Tok) :=
        match rest with
        | .op ":" :: _ => some (none, rest)
        | _ => match expr f 0 rest with
          | some (lo, r) => some (some lo, r)
          | none => none
      match loR with
      | none => none
      | some (lo, r1) =>
        match r1 with
        | .op "]" :: r2 =>
          match lo with
          | some i => suffix f (.index e i) r2
          | none => none
        | .op ":" :: r2 =>
          match r2 with
          | .op "]" :: r3 => suffix f (.slice e lo none none) r3
          | _ =>
            match expr f 0 r2 with
            | some (hi, .op "]" :: r3) => suffix f (.slice e lo (some hi) none) r3
            | some (hi, .op ":" :: r3) =>
              match expr f 0 r3 with
              | some (cap, .op "]" :: r4) => suffix f (.slice e lo (some hi) (some cap)) r4
              | _ => none
            | _ => none
        | _ => none
    | .op "(" :: .op ")" :: rest => suffix f (.call e [] false) rest
    | .op "(" :: rest =>
      match args f rest [] with
      | some (as, ell, rest') => suffix f (.call e as ell) rest'
      | none => none
    | _ => some (e, ts)
def args : Nat → List Tok → List E → Option (List E × Bool × List Tok)
  | 0, _, _ => none
  | f+1, ts, acc =>
    match expr f 0 ts with
    | none => none
    | some (a, rest) =>
      let acc := a :: acc
      match rest with
      | .op ")" :: r => some (acc.reverse, false, r)
      | .op "..." :: .op ")" :: r => some (acc.reverse, true, r)
      | .op "..." :: .op "," :: .op ")" :: r => some (acc.reverse, true, r)
      | .op "," :: .op ")" :: r => some (acc.reverse, false, r)
      | .op "," :: r => args f r acc
      | _ => none
end

inductive ParseRes | accept (e : E) | reject | unsupported
deriving Repr

def parseCode (s : String) : ParseRes :=
  match lex s with
  | .unsupported => .unsupported
  | .err => .reject
  | .ok ts =>
    match expr (4 * ts.length + 8) 0 ts with
    | some (e, []) => .accept e
    -- a trailing newline / multi-line comment is fine, but only when the end of input follows; ';' never is
    | some (e, [.eos t]) => if t = ";" then .reject else .accept e
    | _ => .reject

def hexOf (s : String) : String :=
  let hd (n : Nat) : Char := if n < 10 then Char.ofNat (48 + n) else Char.ofNat (87 + n)
  String.mk (s.toUTF8.toList.flatMap fun b => [hd (b.toNat / 16), hd (b.toNat % 16)])

partial def E.sexp : E → String
  | .lit k t => s!"(lit {k} {hexOf t})"
  | .name s => s!"(name {s})"
  | .paren e => s!"(paren {e.sexp})"
  | .un o e => s!"(un {o} {e.sexp})"
  | .bin o l r => s!"(bin {o} {l.sexp} {r.sexp})"
  | .cond c a b => s!"(cond {c.sexp} {a.sexp} {b.sexp})"
  | .field e safe n => s!"(field {if safe then "?." else "."} {e.sexp} {n})"
  | .index e i => s!"(index {e.sexp} {i.sexp})"
  | .slice e lo hi cap =>
    let o (x : Option E) := match x with | some y => y.sexp | none => "_"
    s!"(slice {e.sexp} {o lo} {o hi} {o cap})"
  | .call e as ell => s!"(call {e.sexp} [{" ".intercalate (as.map E.sexp)}]{if ell then " ..." else ""})"

end EL
