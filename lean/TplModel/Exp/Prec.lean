namespace PC

/-- binary operator classes by ANTLR precedence number: mul 6, add 5, rel 4, land 3, lor 2 (ternary 1) -/
structure BinOp where
  name : String
  prec : Nat
  hlo : 2 ≤ prec
  hhi : prec ≤ 6
deriving DecidableEq

inductive Tok
  | atom (n : Nat)
  | un (o : String)
  | bin (o : BinOp)
  | lp | rp | q | colon
deriving DecidableEq

inductive Expr
  | atom (n : Nat)
  | un (o : String) (e : Expr)
  | bin (o : BinOp) (l r : Expr)
  | cond (c a b : Expr)
deriving DecidableEq

-- the generated parser: `expression(p)` = prefix then loop with `Precpred(ctx, k)` = `k ≥ p`
mutual
def expr : Nat → Nat → List Tok → Option (Expr × List Tok)
  | 0, _, _ => none
  | f+1, p, ts =>
    match ts with
    | .atom n :: ts => loop f p (.atom n) ts
    | .un o :: ts =>
      match expr f 7 ts with
      | some (e, ts) => loop f p (.un o e) ts
      | none => none
    | .lp :: ts =>
      match expr f 0 ts with
      | some (e, .rp :: ts) => loop f p e ts
      | _ => none
    | _ => none
def loop : Nat → Nat → Expr → List Tok → Option (Expr × List Tok)
  | 0, _, _, _ => none
  | f+1, p, lhs, ts =>
    match ts with
    | .bin o :: ts' =>
      if p ≤ o.prec then
        match expr f (o.prec + 1) ts' with
        | some (r, ts'') => loop f p (.bin o lhs r) ts''
        | none => none
      else some (lhs, ts)
    | .q :: ts' =>
      if p ≤ 1 then
        match expr f 0 ts' with
        | some (a, .colon :: ts'') =>
          match expr f 2 ts'' with         -- generated code: expression(2)  ⇒ left associative
          | some (b, ts''') => loop f p (.cond lhs a b) ts'''
          | none => none
        | _ => none
      else some (lhs, ts)
    | _ => some (lhs, ts)
end

def lev : Expr → Nat
  | .atom _ => 8
  | .un _ _ => 7
  | .bin o _ _ => o.prec
  | .cond _ _ _ => 1

-- minimal-parenthesis printer for the table above
mutual
def raw : Expr → List Tok
  | .atom n => [.atom n]
  | .un o e => .un o :: pp 7 e
  | .bin o l r => pp o.prec l ++ .bin o :: pp (o.prec + 1) r
  | .cond c a b => pp 1 c ++ .q :: pp 0 a ++ .colon :: pp 2 b
def pp : Nat → Expr → List Tok
  | p, .atom n => if p ≤ 8 then [.atom n] else .lp :: [.atom n] ++ [.rp]
  | p, .un o e => if p ≤ 7 then .un o :: pp 7 e else .lp :: (.un o :: pp 7 e) ++ [.rp]
  | p, .bin o l r =>
    if p ≤ o.prec then pp o.prec l ++ .bin o :: pp (o.prec + 1) r
    else .lp :: (pp o.prec l ++ .bin o :: pp (o.prec + 1) r) ++ [.rp]
  | p, .cond c a b =>
    if p ≤ 1 then pp 1 c ++ .q :: pp 0 a ++ .colon :: pp 2 b
    else .lp :: (pp 1 c ++ .q :: pp 0 a ++ .colon :: pp 2 b) ++ [.rp]
end

theorem pp_eq (p : Nat) (e : Expr) : pp p e = if p ≤ lev e then raw e else .lp :: raw e ++ [.rp] := by
  cases e <;> simp only [pp, raw, lev] <;> split <;> rename_i h <;> simp [h] <;> omega

/-- `rest` does not continue an expression at level `q`: its head is not an operator of precedence ≥ q -/
def Stop (q : Nat) : List Tok → Prop
  | .bin o :: _ => o.prec < q
  | .q :: _ => 1 < q
  | _ => True

theorem Stop.mono {q q' : Nat} {ts : List Tok} (h : Stop q ts) (hq : q ≤ q') : Stop q' ts := by
  cases ts with
  | nil => trivial
  | cons t ts => cases t <;> simp_all [Stop] <;> omega

theorem loop_stop (f p : Nat) (e : Expr) (ts : List Tok) (h : Stop p ts) : loop (f+1) p e ts = some (e, ts) := by
  cases ts with
  | nil => simp [loop]
  | cons t ts =>
    cases t <;> simp_all [loop, Stop] <;> omega

def Parses (p : Nat) (ts : List Tok) (r : Expr × List Tok) : Prop := ∃ n, ∀ f, n ≤ f → expr f p ts = some r
def Loops (p : Nat) (lhs : Expr) (ts : List Tok) (r : Expr × List Tok) : Prop := ∃ n, ∀ f, n ≤ f → loop f p lhs ts = some r

theorem loops_stop {p : Nat} {e : Expr} {ts : List Tok} (h : Stop p ts) : Loops p e ts (e, ts) :=
  ⟨1, fun f hf => by obtain ⟨f, rfl⟩ : ∃ g, f = g + 1 := ⟨f - 1, by omega⟩; exact loop_stop f p e ts h⟩

theorem stop7 (ts : List Tok) : Stop 7 ts := by
  cases ts with
  | nil => trivial
  | cons t ts =>
    cases t <;> simp [Stop]
    rename_i o; have := o.hhi; omega

def P (e : Expr) : Prop :=
  ∀ p rest r, p ≤ lev e → Stop (lev e + 1) rest → Loops p e rest r → Parses p (raw e ++ rest) r

theorem PP_of_P (e : Expr) (h : P e) (q p : Nat) (rest : List Tok) (r : Expr × List Tok)
    (hpq : p ≤ q) (hs : q ≤ lev e → Stop (lev e + 1) rest) (hl : Loops p e rest r) :
    Parses p (pp q e ++ rest) r := by
  rw [pp_eq]
  split
  · rename_i hq; exact h p rest r (by omega) (hs hq) hl
  · -- parenthesised
    obtain ⟨n1, h1⟩ := h 0 (.rp :: rest) (e, .rp :: rest) (by omega) (by simp [Stop]) (loops_stop (by simp [Stop]))
    obtain ⟨n2, h2⟩ := hl
    refine ⟨max n1 n2 + 1, fun f hf => ?_⟩
    obtain ⟨f, rfl⟩ : ∃ g, f = g + 1 := ⟨f - 1, by omega⟩
    have e1 := h1 f (by omega)
    have e2 := h2 f (by omega)
    simp only [List.cons_append, List.append_assoc, List.singleton_append] at e1 ⊢
    simp [expr, e1, e2]

theorem lev_ge_one (e : Expr) : 1 ≤ lev e := by
  cases e <;> simp [lev]
  rename_i o _ _; have := o.hlo; omega

theorem P_all (e : Expr) : P e := by
  induction e with
  | atom n =>
    intro p rest r _ _ hl
    obtain ⟨n1, h1⟩ := hl
    refine ⟨n1 + 1, fun f hf => ?_⟩
    obtain ⟨f, rfl⟩ : ∃ g, f = g + 1 := ⟨f - 1, by omega⟩
    simp [raw, expr, h1 f (by omega)]
  | un o e ih =>
    intro p rest r _ _ hl
    obtain ⟨n1, h1⟩ := PP_of_P e ih 7 7 rest (e, rest) (by omega)
      (fun _ => (stop7 rest).mono (by have := lev_ge_one e; omega)) (loops_stop (stop7 rest))
    obtain ⟨n2, h2⟩ := hl
    refine ⟨max n1 n2 + 1, fun f hf => ?_⟩
    obtain ⟨f, rfl⟩ : ∃ g, f = g + 1 := ⟨f - 1, by omega⟩
    simp [raw, expr, h1 f (by omega), h2 f (by omega)]
  | bin o l r ihl ihr =>
    intro p rest res hp hs hl
    simp only [lev] at hp hs
    -- right operand
    obtain ⟨n1, h1⟩ := PP_of_P r ihr (o.prec + 1) (o.prec + 1) rest (r, rest) (by omega)
      (fun hq => hs.mono (by omega)) (loops_stop hs)
    obtain ⟨n2, h2⟩ := hl
    -- the loop after the left operand
    have hloop : Loops p l (.bin o :: (pp (o.prec + 1) r ++ rest)) res := by
      refine ⟨max n1 n2 + 1, fun f hf => ?_⟩
      obtain ⟨f, rfl⟩ : ∃ g, f = g + 1 := ⟨f - 1, by omega⟩
      simp [loop, hp, h1 f (by omega), h2 f (by omega)]
    have := PP_of_P l ihl o.prec p (.bin o :: (pp (o.prec + 1) r ++ rest)) res hp
      (fun hq => by simp [Stop]; omega) hloop
    simpa [raw] using this
  | cond c a b ihc iha ihb =>
    intro p rest res hp hs hl
    simp only [lev] at hp hs
    obtain ⟨n1, h1⟩ := PP_of_P a iha 0 0 (.colon :: (pp 2 b ++ rest)) (a, .colon :: (pp 2 b ++ rest)) (by omega)
      (fun _ => by simp [Stop]) (loops_stop (by simp [Stop]))
    obtain ⟨n2, h2⟩ := PP_of_P b ihb 2 2 rest (b, rest) (by omega)
      (fun hq => hs.mono (by omega)) (loops_stop hs)
    obtain ⟨n3, h3⟩ := hl
    have hloop : Loops p c (.q :: (pp 0 a ++ .colon :: (pp 2 b ++ rest))) res := by
      refine ⟨max n1 (max n2 n3) + 1, fun f hf => ?_⟩
      obtain ⟨f, rfl⟩ : ∃ g, f = g + 1 := ⟨f - 1, by omega⟩
      simp [loop, hp, h1 f (by omega), h2 f (by omega), h3 f (by omega)]
    have := PP_of_P c ihc 1 p (.q :: (pp 0 a ++ .colon :: (pp 2 b ++ rest))) res hp
      (fun hq => by simp [Stop]; have := lev_ge_one c; omega) hloop
    simpa [raw] using this

/-- C09 grouping: parsing the minimally parenthesised print of any expression tree gives back that tree,
    for the precedence table extracted from the generated parser (binary levels 2..6 left-associative,
    unary above all, conditional loosest and — as generated — LEFT associative). -/
theorem parse_pretty (e : Expr) : ∃ n, ∀ f, n ≤ f → expr f 0 (pp 0 e) = some (e, []) := by
  have := PP_of_P e (P_all e) 0 0 [] (e, []) (by omega) (fun _ => by simp [Stop]) (loops_stop (by simp [Stop]))
  simpa [Parses] using this

end PC

namespace PC
open Tok Expr in
/-- the pinned parser groups `a ? b : c ? d : e` to the LEFT (C09 finding #19) -/
example : expr 20 0 [atom 0, q, atom 1, colon, atom 2, q, atom 3, colon, atom 4]
    = some (cond (cond (atom 0) (atom 1) (atom 2)) (atom 3) (atom 4), []) := by decide
end PC
