import Lean.Data.Json
import TplModel.Html.Scan
import TplModel.Html.CodeScan
import TplModel.Exp.Eval
namespace Full
open EV (Val)

/-! Executable model of the whole pinned engine: scan → compile attributes → tree → manager → renderer.
    Written for differential testing only (imperative style, `partial`), not for proofs. -/

inductive Part
  | lit (s : String)
  | code (e : EL.E)
  | other                      -- BegEnd / CodeStart / CodeEnd
deriving Inhabited

structure CAttr where
  name : String
  value : Option String
  parts : List Part            -- ValueTokens (empty = not compiled)
deriving Inhabited

inductive NK | root | tag | text | comment | cdata
deriving DecidableEq, Repr, Inhabited

structure NodeD where           -- node data without children
  id : Nat
  kind : NK
  value : String                -- token value
  tagName : String
  attrs : List CAttr            -- source order
deriving Inhabited

inductive Node
  | mk (d : NodeD) (kids : List Node) (endVal : Option String)
deriving Inhabited

def Node.d : Node → NodeD | .mk d _ _ => d
def Node.kids : Node → List Node | .mk _ k _ => k
def Node.endVal : Node → Option String | .mk _ _ e => e

structure Cfg where
  textTags : List String := ["script", "style", "textarea", "title"]
  voidTags : List String := ["!doctype", "area", "base", "br", "col", "embed", "hr", "img", "input", "link", "meta", "source", "track", "wbr"]
  tagPrefix : String := "t:"
  attrPrefix : String := ":"
  fixed : Bool := false          -- model of the tree with the §9 repairs 1,3,4,5,6 applied

inductive LoadRes (α : Type)
  | ok (a : α) | err | panic | unsupported

/-- compileAttr over one attribute -/
def compileAttr (cfg : Cfg) (a : HS.Attr) : LoadRes CAttr :=
  let name := String.mk a.name
  let value : Option (List Char) :=
    if a.value.isNone && name == cfg.attrPrefix ++ "else" then some "\"true\"".toList else a.value
  match value with
  | none => .ok ⟨name, none, []⟩
  | some v =>
    if !name.startsWith cfg.attrPrefix then .ok ⟨name, some (String.mk v), []⟩
    else
      let toks := CS.scan a.valueStart v
      let isErr : Bool := match toks.getLast? with
        | some t => t.kind == .begEnd && t.value == "ERR".toList && t.start.line == 0
        | none => false
      if isErr then .err else
      let rec go : List CS.CTok → List Part → LoadRes (List Part)
        | [], acc => .ok acc.reverse
        | t :: ts, acc =>
          match t.kind with
          | .literal => go ts (.lit (String.mk t.value) :: acc)
          | .codeValue =>
            match EL.parseCode (String.mk t.value) with
            | .accept e => go ts (.code e :: acc)
            | .reject => .err
            | .unsupported => .unsupported
          | _ => go ts (.other :: acc)
      match go toks [] with
      | .ok parts => .ok ⟨name, some (String.mk v), parts⟩
      | .err => .err
      | .panic => .panic
      | .unsupported => .unsupported

def compileAttrs (cfg : Cfg) : List HS.Attr → LoadRes (List CAttr)
  | [] => .ok []
  | a :: as =>
    match compileAttr cfg a with
    | .ok c => match compileAttrs cfg as with
      | .ok cs => .ok (c :: cs)
      | .err => .err | .panic => .panic | .unsupported => .unsupported
    | .err => .err | .panic => .panic | .unsupported => .unsupported

def lowerS (s : String) : String := String.mk (s.toList.map Char.toLower)

def isSelfClose (name : String) (attrs : List CAttr) (rawAttrs : List HS.Attr) : Bool :=
  match rawAttrs.getLast? with
  | none => name.endsWith "/"
  | some a =>
    match attrs.getLast? with
    | some c => match c.value with
      | none => (String.mk a.name).endsWith "/"
      | some v => v.endsWith "/"
    | none => false

structure Frame where
  d : NodeD
  before : List Node       -- reversed

/-- ParseTokens with the pinned nil-dereference -/
def buildTree (cfg : Cfg) (fileIdx : Nat) (toks : List HS.Token) : LoadRes Node :=
  let rec go (i : Nat) (stack : List Frame) (cur : List Node) (rootEnd : Option String) (dead : Bool) :
      List HS.Token → LoadRes Node
    | [] =>
      let rec closeAll : List Frame → List Node → List Node
        | [], cur => cur
        | fr :: rest, cur => closeAll rest (.mk fr.d cur.reverse none :: fr.before)
      .ok (.mk ⟨fileIdx * 100000, .root, "", "", []⟩ (closeAll stack cur).reverse rootEnd)
    | t :: ts =>
      let id := fileIdx * 100000 + i + 1
      let value := String.mk t.value
      match t.kind, t.tag with
      | .tag, some tg =>
        match compileAttrs cfg tg.attrs with
        | .err => .err | .panic => .panic | .unsupported => .unsupported
        | .ok attrs =>
          let name := String.mk tg.name
          let isVoid := cfg.voidTags.any (fun v => lowerS v == lowerS name)
          let selfClose := isSelfClose name attrs tg.attrs
          let isClose := name.startsWith "/" || selfClose
          let d : NodeD := ⟨id, .tag, value, name, attrs⟩
          if isClose || isVoid then
            if selfClose || isVoid then
              if dead then .panic else go (i+1) stack (.mk d [] none :: cur) rootEnd dead ts
            else
              if dead then .panic else
              match stack with
              | fr :: rest => go (i+1) rest (.mk fr.d cur.reverse (some value) :: fr.before) rootEnd dead ts
              | [] =>
                if cfg.fixed then go (i+1) [] (.mk d [] none :: cur) rootEnd dead ts
                else go (i+1) [] cur (some value) true ts
          else
            if dead then .panic else go (i+1) (⟨d, cur⟩ :: stack) [] rootEnd dead ts
      | .tag, none => .err
      | k, _ =>
        let nk := match k with | .text => NK.text | .comment => NK.comment | _ => NK.cdata
        if dead then .panic else go (i+1) stack (.mk ⟨id, nk, value, "", []⟩ [] none :: cur) rootEnd dead ts
  go 0 [] [] none false toks

end Full

namespace Full
open EV (Val)

partial def fmtV : Val → Option String
  | .nil => some "<nil>"
  | .bool b => some (toString b)
  | .int _ v => some (toString v)
  | .str s => some s
  | .slice _ xs _ | .array _ xs =>
    (xs.mapM fmtV).map fun ss => "[" ++ " ".intercalate ss ++ "]"
  | .map _ kvs =>
    let sorted := kvs.toArray.qsort (fun a b => a.1 < b.1) |>.toList
    (sorted.mapM fun kv => (fmtV kv.2).map fun v => kv.1 ++ ":" ++ v).map fun ss => "map[" ++ " ".intercalate ss ++ "]"
  | _ => none

def escapeHtml (s : String) : String :=
  String.join (s.toList.map fun c =>
    if c = '&' then "&amp;" else if c = '\'' then "&#39;" else if c = '<' then "&lt;"
    else if c = '>' then "&gt;" else if c = '"' then "&#34;" else c.toString)

def trimSpace (s : String) : String :=
  let cs := s.toList.dropWhile HS.isSpace
  String.mk (cs.reverse.dropWhile HS.isSpace).reverse

def sTake (s : String) (n : Nat) : String := String.mk (s.toList.take n)
def sDrop (s : String) (n : Nat) : String := String.mk (s.toList.drop n)
def sDropRight (s : String) (n : Nat) : String := String.mk (s.toList.take (s.length - n))
def trimPrefix (s p : String) : String := if s.startsWith p then sDrop s p.length else s
def trimSuffix (s p : String) : String := if s.endsWith p then sDropRight s p.length else s
def indexOf (s : String) (c : Char) : Option Nat :=
  let cs := s.toList
  let i := (cs.takeWhile (· ≠ c)).length
  if i < cs.length then some i else none

inductive ChildMode
  | unset | nop
  | textLike (a : CAttr) (isText : Bool)
  | abf

structure Opt where
  noPrint : Bool := false
  child : ChildMode := .unset

inductive Tpl
  | file (root : Node)
  | frag (orig : Node) (lo hi : Nat)

structure RS where
  cur : List (Nat × Nat) := []
  nc : List (Nat × Bool) := []
  failed : Option String := none
  unsupported : Bool := false
  depth : Nat := 0

abbrev X := StateM RS

def fail (cls : String) : X Unit := modify fun s => if s.failed.isNone then { s with failed := some cls } else s
def isFailed : X Bool := do return (← get).failed.isSome

def getCur (id : Nat) : X Nat := do return (((← get).cur.find? (·.1 = id)).map (·.2)).getD 0
def setCur (id : Nat) (v : Nat) : X Unit := modify fun s => { s with cur := (id, v) :: s.cur.filter (·.1 ≠ id) }
def getNc (id : Option Nat) : X (Option Bool) := do
  match id with
  | none => return none          -- nodeCondition[nil] is never written
  | some i => return ((← get).nc.find? (·.1 = i)).map (·.2)
def setNc (id : Nat) (b : Bool) : X Unit := modify fun s => { s with nc := (id, b) :: s.nc.filter (·.1 ≠ id) }

/-- exp.Evaluate: value, or none after recording a failure -/
def evalExpr (sc : List Val) (e : EL.E) : X (Option Val) := do
  match (EV.eval sc e).run {} with
  | .error () => fail "eval"; return none
  | .ok (v, st) =>
    if st.err.isSome then fail "eval"; return none
    else return some v

def attrEvaluate (a : CAttr) (sc : List Val) : X String := do
  if ← isFailed then return ""
  match a.value with
  | none => fail "attrValueExpected"; return ""
  | some v =>
    if a.parts.isEmpty then return v
    let mut buf := ""
    for p in a.parts do
      match p with
      | .lit s => buf := buf ++ s
      | .code e =>
        match ← evalExpr sc e with
        | none => return ""
        | some r =>
          match fmtV r with
          | some s => buf := buf ++ s
          | none => modify fun st => { st with unsupported := true }
      | .other => pure ()
    return buf

def withAssign (a : CAttr) (sc : List Val) : X (Option Val) := do
  if ← isFailed then return none
  if a.value.isNone then fail "attrValueExpected"; return none
  let mut names : List String := []
  let mut codes : List EL.E := []
  for p in a.parts do
    match p with
    | .lit s =>
      let name := trimSpace s
      if name == "" then continue
      if codes.length > names.length then fail "with"; return none
      if !name.endsWith ":=" then fail "with"; return none
      let mut name := trimSpace (trimSuffix name ":=")
      if names.length > 0 then
        if !name.startsWith ";" then fail "with"; return none
        name := trimSpace (trimPrefix name ";")
      names := names ++ [name]
    | .code e =>
      if names.length != codes.length + 1 then fail "with"; return none
      codes := codes ++ [e]
    | .other => pure ()
  if names.isEmpty then fail "with"; return none
  if codes.length != names.length then fail "with"; return none
  let mut kvs : List (String × Val) := []
  for (n, e) in names.zip codes do
    match ← evalExpr sc e with
    | none => return none
    | some v => kvs := (n, v) :: kvs.filter (·.1 ≠ n)
  return some (.map "map[string]interface {}" kvs)

def extractRange (s0 : String) : String × String × String :=
  let s := trimSpace s0
  match indexOf s ':' with
  | none => ("", "", s)
  | some i =>
    let obj := trimSpace (sDrop s (i + 1))
    let hd := sTake s i
    match indexOf hd ',' with
    | none => (trimSpace hd, "", obj)
    | some j => (trimSpace (sTake hd j), trimSpace (sDrop hd (j + 1)), obj)

def weight (cfg : Cfg) (a : CAttr) : Int × Int :=
  if a.name.startsWith cfg.attrPrefix then
    let cmd := sDrop a.name cfg.attrPrefix.length
    (0, if cmd == "with" then -4 else if cmd == "if" || (cfg.fixed && ["else-if", "elseif", "elif", "else"].contains cmd) then -3 else if cmd == "range" then -2 else if cmd == "remove" then -1 else 0)
  else (1, 0)

/-- SortedAttr for comparators that are strict weak orders (plain attributes are not named with/if/range/remove) -/
def sortedAttrs (cfg : Cfg) (attrs : List CAttr) : List CAttr :=
  let lt (a b : CAttr) : Bool :=
    let (pa, wa) := weight cfg a; let (pb, wb) := weight cfg b
    pa < pb || (pa == pb && wa < wb)
  -- stable insertion sort
  attrs.foldl (fun acc a =>
    let (before, after) := acc.span (fun b => !lt a b)
    before ++ [a] ++ after) []

def hasAttr (cfg : Cfg) (attrs : List CAttr) (names : List String) : Bool :=
  names.any fun n => attrs.any fun a => a.name == cfg.attrPrefix ++ n

def condNames : List String := ["if", "else-if", "elseif", "elif", "else"]

def isTagNode (n : Node) : Bool := n.d.kind == .tag
def isBlankText (n : Node) : Bool := n.d.kind == .text && trimSpace n.d.value == ""

def prevSiblingTag (sibs : List Node) (idx : Nat) : Option Nat :=
  ((sibs.take idx).reverse.find? isTagNode).map (·.d.id)

def isHiddenComment (v : String) : Bool :=
  let c := trimSpace (trimSuffix (trimPrefix v "<!--") "-->")
  c.startsWith "/*" && c.endsWith "*/"

structure Mgr where
  cfg : Cfg
  templates : List (String × Tpl)

mutual
partial def execute (m : Mgr) (node : Node) (sibs : List Node) (idx : Nat) (sc : List Val) (opt0 : Opt) : X String := do
  if ← isFailed then return ""
  let d := node.d
  let mut opt := opt0
  let mut data := sc
  let mut tokenBuf := ""
  match d.kind with
  | .root => pure ()
  | .tag =>
    let (data', opt', buf) ← processTagStart m node sibs idx sc opt
    if ← isFailed then return ""
    data := data'; opt := opt'; tokenBuf := buf
  | .comment =>
    if isHiddenComment d.value then opt := { opt with noPrint := true }
    if !opt.noPrint then tokenBuf := d.value
  | _ => if !opt.noPrint then tokenBuf := d.value
  let mut out := tokenBuf
  -- children
  match opt.child with
  | .unset => out := out ++ (← execKids m node.kids node.kids 0 data)
  | .nop => pure ()
  | .textLike a isText =>
    let r ← attrEvaluate a data
    if !(← isFailed) then out := out ++ (if isText then escapeHtml r else r)
  | .abf =>
    let kids := node.kids
    let tagIdx := (kids.takeWhile (fun k => !isTagNode k)).length
    let tagNode := kids[tagIdx]?
    let before := if tagIdx > 0 && tagNode.isSome then (match kids[0]? with | some k => if isBlankText k then some k else none | none => none) else none
    let after := match kids.getLast? with | some k => if isBlankText k then some (k, kids.length - 1) else none | none => none
    if let some b := before then out := out ++ (← execute m b kids 0 data {})
    if let some t := tagNode then out := out ++ (← execute m t kids tagIdx data {})
    if let some (a, ai) := after then out := out ++ (← execute m a kids ai data {})
  if ← isFailed then return out
  match node.endVal with
  | some e => if !opt.noPrint then out := out ++ e
  | none => pure ()
  return out

partial def execKids (m : Mgr) (kids : List Node) (sibs : List Node) (start : Nat) (sc : List Val) : X String := do
  let mut out := ""
  let mut i := start
  for k in kids do
    if ← isFailed then return out
    out := out ++ (← execute m k sibs i sc {})
    i := i + 1
  return out

partial def execTpl (m : Mgr) (t : Tpl) (sc : List Val) : X String := do
  -- a fresh htmlTemplate: fresh flag / condition maps
  let saved ← get
  if saved.depth > 200 then fail "stackOverflow"; return ""
  modify fun s => { s with cur := [], nc := [], depth := s.depth + 1 }
  let out ← match t with
    | .file root => execute m root [] 0 sc {}
    | .frag orig lo hi => execKids m ((orig.kids.drop lo).take (hi - lo)) orig.kids lo sc
  modify fun s => { s with cur := saved.cur, nc := saved.nc, depth := saved.depth }
  return out

partial def processTagStart (m : Mgr) (node : Node) (sibs : List Node) (idx : Nat) (sc : List Val) (opt0 : Opt) :
    X (List Val × Opt × String) := do
  let cfg := m.cfg
  let d := node.d
  let attrs := d.attrs
  let mut opt := opt0
  let mut data := sc
  let mut tokenBuf := ""
  if lowerS d.tagName == cfg.tagPrefix ++ "block" then opt := { opt with noPrint := true }
  if hasAttr cfg attrs ["define", "replace"] then opt := { noPrint := true, child := .nop }
  let flags ← getCur d.id
  if hasAttr cfg attrs condNames && flags &&& 1 == 0 then opt := { noPrint := true, child := .nop }
  if hasAttr cfg attrs ["range"] && flags &&& 2 == 0 then opt := { noPrint := true, child := .nop }
  if hasAttr cfg attrs ["insert"] then opt := { opt with child := .nop }
  let mut tagBuf := ""
  if !opt.noPrint then tagBuf := "<" ++ d.tagName
  let mut contentBuf := ""
  for a in sortedAttrs cfg attrs do
    if ← isFailed then return (data, opt, "")
    if a.name.startsWith cfg.attrPrefix then
      let cmd := sDrop a.name cfg.attrPrefix.length
      if cmd == "with" then
        if cfg.fixed && (← getCur d.id) != 0 then continue
        match ← withAssign a data with
        | some fr => data := fr :: data
        | none => return (data, opt, "")
      else if condNames.contains cmd then
        -- processIfElse
        if a.value.isNone then fail "attrValueExpected"; return (data, opt, "")
        if (← getCur d.id) &&& 1 != 0 then continue
        setCur d.id ((← getCur d.id) ||| 1)
        opt := { opt with child := .nop }
        let mut doEval := cmd == "if"
        if cmd != "if" then
          match ← getNc (prevSiblingTag sibs idx) with
          | none => fail "unexpectedElse"
          | some p =>
            doEval := !p
            if cfg.fixed && p then setNc d.id true
        if doEval && !(← isFailed) then
          let r ← attrEvaluate a data
          if !(← isFailed) then
            setNc d.id false
            if r == "true" then
              setNc d.id true
              tokenBuf := tokenBuf ++ (← execute m node sibs idx data {})
        setCur d.id ((← getCur d.id) &&& 2)
        if ← isFailed then return (data, opt, "")
        if cfg.fixed then return (data, opt, tokenBuf)
      else if cmd == "range" then
        match a.value with
        | none => fail "attrValueExpected"; return (data, opt, "")
        | some av =>
          if (← getCur d.id) &&& 2 != 0 then continue
          setCur d.id ((← getCur d.id) ||| 2)
          let v := trimSuffix (trimPrefix (trimSuffix (trimPrefix av "'") "'") "\"") "\""
          let (idxName, itemName, objName) := extractRange v
          match EL.parseCode objName with
          | .reject => fail "rangeObject"
          | .unsupported => modify fun s => { s with unsupported := true }
          | .accept e =>
            match ← evalExpr data e with
            | none => pure ()
            | some obj =>
              let items : Option (List (Val × Val)) := match obj with
                | .slice _ xs _ | .array _ xs => some (xs.mapIdx fun i x => (Val.int .int (i + 1), x))
                | .str s => some (s.toUTF8.toList.mapIdx fun i b => (Val.int .int (i + 1), Val.int .uint8 b.toNat))
                | .map _ kvs => some (kvs.map fun kv => (Val.str kv.1, kv.2))
                | _ => none
              match items with
              | none => fail "rangeKind"
              | some items =>
                let nextBlank := match sibs[idx + 1]? with
                  | some n => if isBlankText n then some n else none
                  | none => none
                let mut count := 0
                for (i, x) in items do
                  if ← isFailed then break
                  let frame := Val.map "map[string]interface {}" (if idxName == itemName then [(itemName, x)] else [(idxName, i), (itemName, x)])
                  let child := frame :: data
                  if count > 0 then
                    if let some nb := nextBlank then tokenBuf := tokenBuf ++ (← execute m nb sibs (idx + 1) child {})
                  tokenBuf := tokenBuf ++ (← execute m node sibs idx child {})
                  count := count + 1
          setCur d.id ((← getCur d.id) &&& 1)
          if ← isFailed then return (data, opt, "")
          if cfg.fixed then return (data, opt, tokenBuf)
      else if cmd == "remove" then
        let av := a.value.getD ""
        if av == "\"all\"" || av == "'all'" then opt := { noPrint := true, child := .nop }
        else if av == "\"body\"" || av == "'body'" then opt := { opt with child := .nop }
        else if av == "\"tag\"" || av == "'tag'" then opt := { opt with noPrint := true }
        else if av == "\"all-but-first\"" || av == "'all-but-first'" then
          match opt.child with
          | .unset => opt := { opt with child := .abf }
          | _ => pure ()
      else if cmd == "text" || cmd == "raw" then
        match opt.child with
        | .unset => opt := { opt with child := .textLike a (cmd == "text") }
        | _ => pure ()
      else if cmd == "define" then pure ()
      else if cmd == "replace" || cmd == "insert" then
        let name ← attrEvaluate a data
        if ← isFailed then return (data, opt, "")
        match m.templates.find? (·.1 == name) with
        | none => fail "tplNotFound"; return (data, opt, "")
        | some (_, t) =>
          let out ← execTpl m t data
          if ← isFailed then return (data, opt, "")
          if cmd == "replace" then tokenBuf := tokenBuf ++ out else contentBuf := contentBuf ++ out
      else
        let r ← attrEvaluate a data
        if ← isFailed then return (data, opt, "")
        if !opt.noPrint then
          tagBuf := tagBuf ++ " " ++ cmd ++ "=" ++ (if cfg.fixed then "\"" ++ escapeHtml r ++ "\"" else (escapeHtml r).quote)
    else
      if !(attrs.any fun b => b.name == cfg.attrPrefix ++ a.name) then
        if !opt.noPrint then
          tagBuf := tagBuf ++ " " ++ a.name ++ (match a.value with | some v => "=" ++ v | none => "")
  if !opt.noPrint then
    tagBuf := tagBuf ++ ">" ++ contentBuf
    tokenBuf := tokenBuf ++ tagBuf
  return (data, opt, tokenBuf)
end

end Full

namespace Full
open EV (Val)
open Lean (Json)

partial def valOfJson : Json → Val
  | .null => .nil
  | .bool b => .bool b
  | .num n => .int .int n.mantissa       -- integers only in the experiment
  | .str s => .str s
  | .arr xs => .slice "[]interface {}" (xs.toList.map valOfJson) xs.size
  | .obj kvs => .map "map[string]interface {}" (kvs.toList.map fun (k, v) => (k, valOfJson v))

def emptyMap : Val := .map "map[string]interface {}" []

/-- tplManager.Add for one file; returns the extended template table -/
def addFile (cfg : Cfg) (fileIdx : Nat) (name : String) (src : String) (tpls : List (String × Tpl)) :
    LoadRes (List (String × Tpl)) :=
  if tpls.any (·.1 == name) then .err else
  match HS.scan ⟨cfg.textTags.map String.toList⟩ src.toList with
  | .error (.panic _) => .panic
  | .error _ => .err
  | .ok toks =>
    match buildTree cfg fileIdx toks with
    | .err => .err | .panic => .panic | .unsupported => .unsupported
    | .ok root =>
      let rec walk (fuel : Nat) (n : Node) (acc : LoadRes (List (String × Tpl))) : LoadRes (List (String × Tpl)) :=
        match fuel, acc with
        | 0, _ => .err
        | f+1, .ok tpls =>
          let here : LoadRes (List (String × Tpl)) :=
            if n.d.kind == .tag then
              match n.d.attrs.find? (fun a => a.name == cfg.attrPrefix ++ "define") with
              | none => .ok tpls
              | some a =>
                let (nameS, st) := (attrEvaluate a [emptyMap]).run {}
                if st.unsupported then .unsupported
                else if st.failed.isSome then .err
                else if tpls.any (·.1 == nameS) then .err
                else
                  let kids := n.kids
                  let lo := match kids[0]? with | some k => if isBlankText k then 1 else 0 | none => 0
                  let hi := match kids.getLast? with | some k => if isBlankText k then kids.length - 1 else kids.length | none => 0
                  .ok (tpls ++ [(nameS, .frag n lo hi)])
            else .ok tpls
          n.kids.foldl (fun acc k => walk f k acc) here
        | _, r => r
      walk 100000 root (.ok (tpls ++ [(name, .file root)]))

def renderOp (j : Json) : Json :=
  let files := (j.getObjValAs? (Array (Array String)) "files").toOption.getD #[]
  let tplName := (j.getObjValAs? String "tpl").toOption.getD ""
  let data := (j.getObjVal? "data").toOption.getD .null
  let cfg : Cfg := { fixed := (j.getObjValAs? Bool "fixed").toOption.getD false }
  let rec load (i : Nat) (fs : List (Array String)) (tpls : List (String × Tpl)) : LoadRes (List (String × Tpl)) :=
    match fs with
    | [] => .ok tpls
    | f :: rest =>
      match addFile cfg (i + 1) (f[0]!) (f[1]!) tpls with
      | .ok t => load (i + 1) rest t
      | r => r
  match load 0 files.toList [] with
  | .err => Json.mkObj [("load", "err")]
  | .panic => Json.mkObj [("load", "panic")]
  | .unsupported => Json.mkObj [("load", "unsupported")]
  | .ok tpls =>
    match tpls.find? (·.1 == tplName) with
    | none => Json.mkObj [("load", "ok"), ("get", "notfound")]
    | some (_, t) =>
      let dv := match valOfJson data with | .nil => emptyMap | v => v
      let (out, st) := (execTpl ⟨cfg, tpls⟩ t [dv, emptyMap]).run {}
      if st.unsupported then Json.mkObj [("load", "unsupported")]
      else Json.mkObj [("load", "ok"), ("out", out), ("err", match st.failed with | some c => Json.str c | none => Json.null)]

end Full
