import TplModel.Html.Scan
import TplModel.Html.CodeScan
import TplModel.Exp.Eval
import TplModel.Html.Render
import TplModel.Generated.Facts
/-! Loader (scan → compileAttr → ParseTokens → manager registry) and the concrete evaluation interface that
    instantiates the generic renderer `RN` with the expression evaluator `EV`. Executable; used by the driver. -/
namespace EN
open EV (Val FnSpec)
open RN (CAttr Part NodeD Node NK Cls)

structure Cfg where
  textTags : List String := Facts.defaultTextTags
  voidTags : List String := Facts.defaultVoidElements
  tagPrefix : String := "t:"
  attrPrefix : String := ":"

inductive LoadRes (α : Type)
  | ok (a : α) | err | panic | unsupported
deriving Inhabited

/-- loader state: table of compiled expressions (RN.Part.code refers to it by index) -/
abbrev Tbl := Array EL.E
abbrev LM := StateM Tbl

def LoadRes.map {α β : Type} (f : α → β) : LoadRes α → LoadRes β
  | .ok a => .ok (f a)
  | .err => .err | .panic => .panic | .unsupported => .unsupported

/-- apply `f` to a successful result (state-passing form of the loader monad) -/
def mapRes {α β : Type} (f : α → β) (r : LoadRes α × Tbl) : LoadRes β × Tbl := (r.1.map f, r.2)

/-- sequencing: a failure ends the computation -/
def bindRes {α β : Type} (r : LoadRes α × Tbl) (k : α → Tbl → LoadRes β × Tbl) : LoadRes β × Tbl :=
  match r.1 with
  | .ok a => k a r.2
  | .err => (.err, r.2) | .panic => (.panic, r.2) | .unsupported => (.unsupported, r.2)

/-- prepend one compiled part to the result of compiling the rest -/
def consPart (p : Part) (r : LoadRes (List Part) × Tbl) : LoadRes (List Part) × Tbl := mapRes (p :: ·) r

/-- the value tokens of one directive attribute, in order; every `${…}` block is parsed and appended to the table -/
def compileParts : List CS.CTok → Tbl → LoadRes (List Part) × Tbl
  | [], tbl => (.ok [], tbl)
  | t :: ts, tbl =>
    match t.kind with
    | .literal => consPart (.lit (String.ofList t.value)) (compileParts ts tbl)
    | .codeValue =>
      match EL.parseCode (String.ofList t.value) with
      | .accept e => consPart (.code tbl.size) (compileParts ts (tbl.push e))
      | .reject => (.err, tbl)
      | .unsupported => (.unsupported, tbl)
    | _ => consPart .other (compileParts ts tbl)

/-- the value of an attribute as compileAttr sees it (`:else` without value means `:else="true"`) -/
def attrValueOf (cfg : Cfg) (a : HS.Attr) : Option (List Char) :=
  if a.value.isNone && String.ofList a.name == cfg.attrPrefix ++ "else" then some "\"true\"".toList else a.value

def codeScanFailed (toks : List CS.CTok) : Bool :=
  match toks.getLast? with
  | some t => t.value == "ERR".toList && t.start.line == 0
  | none => false

/-- a compiled directive attribute from its compiled parts -/
def mkDirective (name : String) (v : List Char) (r : LoadRes (List Part) × Tbl) : LoadRes CAttr × Tbl :=
  mapRes (fun parts => ⟨name, some (String.ofList v), parts⟩) r

/-- compileAttr over one attribute (state-passing form) -/
def compileAttrS (cfg : Cfg) (a : HS.Attr) (tbl : Tbl) : LoadRes CAttr × Tbl :=
  let name := String.ofList a.name
  match attrValueOf cfg a with
  | none => (.ok ⟨name, none, []⟩, tbl)
  | some v =>
    if !name.startsWith cfg.attrPrefix then (.ok ⟨name, some (String.ofList v), []⟩, tbl)
    else
      let toks := CS.scan a.valueStart v
      if codeScanFailed toks then (.err, tbl)
      else mkDirective name v (compileParts toks tbl)

def compileAttrsS (cfg : Cfg) : List HS.Attr → Tbl → LoadRes (List CAttr) × Tbl
  | [], tbl => (.ok [], tbl)
  | a :: as, tbl => bindRes (compileAttrS cfg a tbl) fun c tbl' => mapRes (c :: ·) (compileAttrsS cfg as tbl')

/-- compileAttr / compileAttrs in the loader monad -/
def compileAttr (cfg : Cfg) (a : HS.Attr) : LM (LoadRes CAttr) := fun tbl => compileAttrS cfg a tbl
def compileAttrs (cfg : Cfg) (as : List HS.Attr) : LM (LoadRes (List CAttr)) := fun tbl => compileAttrsS cfg as tbl

def lowerS (s : String) : String := String.ofList (s.toList.map Char.toLower)

/-- Tag.IsSelfClose: decided on the LAST attribute in source order -/
def isSelfClose (name : String) (attrs : List CAttr) : Bool :=
  match attrs.getLast? with
  | none => name.endsWith "/"
  | some c => match c.value with
    | none => c.name.endsWith "/"
    | some v => v.endsWith "/"

/-- weight of SortedAttr, from the table extracted from html/tag.go -/
def weight (cfg : Cfg) (a : CAttr) : Int × Int :=
  if a.name.startsWith cfg.attrPrefix then
    let cmd := RN.dropPrefix a.name cfg.attrPrefix
    (0, ((Facts.attrWeights.find? (·.1 == cmd)).map (·.2)).getD 0)
  else (1, 0)

/-- the comparator of SortedAttr: lexicographic on `weight` -/
def ltW (cfg : Cfg) (a b : CAttr) : Bool :=
  (weight cfg a).1 < (weight cfg b).1 || ((weight cfg a).1 == (weight cfg b).1 && (weight cfg a).2 < (weight cfg b).2)

/-- stable insertion: `a` (which followed every element of the list in the source) goes before the first element
    that is strictly greater -/
def insertA (cfg : Cfg) (a : CAttr) : List CAttr → List CAttr
  | [] => [a]
  | b :: bs => if ltW cfg a b then a :: b :: bs else b :: insertA cfg a bs

/-- SortedAttr (stable; the comparator is a strict weak order as long as no plain attribute is literally named
    like a weighted directive) -/
def sortedAttrs (cfg : Cfg) (attrs : List CAttr) : List CAttr :=
  attrs.foldl (fun acc a => insertA cfg a acc) []

structure Frame where
  d : NodeD
  before : List Node       -- reversed

/-- what ParseTokens does with a token -/
inductive Act | leaf | open_ | close
deriving DecidableEq, Repr

/-- a token after compilation: the node it would create and what ParseTokens does with it -/
structure Item where
  d : NodeD
  act : Act

def nkOf : HS.Kind → NK
  | .text => .text | .comment => .comment | _ => .cdata

/-- classification of a tag token (void / self-closing: leaf; `</x>`: close; otherwise open) -/
def tagItem (cfg : Cfg) (id : Nat) (value name : String) (attrs : List CAttr) : Item :=
  let isVoid := cfg.voidTags.any (fun v => lowerS v == lowerS name)
  let selfClose := isSelfClose name attrs
  let isClose := name.startsWith "/" || selfClose
  let d : NodeD := { id := id, kind := .tag, value := value, tagName := name, attrs := sortedAttrs cfg attrs }
  ⟨d, if isClose || isVoid then (if selfClose || isVoid then .leaf else .close) else .open_⟩

/-- one token: compile its attributes, decide what the tree builder does with it -/
def compileTok (cfg : Cfg) (id : Nat) (t : HS.Token) (tbl : Tbl) : LoadRes Item × Tbl :=
  match t.kind, t.tag with
  | .tag, some tg => mapRes (tagItem cfg id (String.ofList t.value) (String.ofList tg.name)) (compileAttrsS cfg tg.attrs tbl)
  | .tag, none => (.err, tbl)
  | k, _ => (.ok ⟨{ id := id, kind := nkOf k, value := String.ofList t.value, tagName := "", attrs := [] }, .leaf⟩, tbl)

/-- all tokens, numbered `id, id+1, …` (the first failing token decides the result, as in the Go loop) -/
def compileToks (cfg : Cfg) : Nat → List HS.Token → Tbl → LoadRes (List Item) × Tbl
  | _, [], tbl => (.ok [], tbl)
  | id, t :: ts, tbl => bindRes (compileTok cfg id t tbl) fun it tbl' => mapRes (it :: ·) (compileToks cfg (id + 1) ts tbl')

/-- state of ParseTokens: the open elements (innermost first) and the finished children of the innermost one -/
structure BS where
  stack : List Frame
  cur : List Node          -- reversed

/-- ParseTokens on one token (a closing tag at the root is kept as a leaf) -/
def stepItem (bs : BS) (it : Item) : BS :=
  match it.act with
  | .leaf => { bs with cur := .mk it.d [] none :: bs.cur }
  | .open_ => { stack := ⟨it.d, bs.cur⟩ :: bs.stack, cur := [] }
  | .close =>
    match bs.stack with
    | fr :: rest => { stack := rest, cur := .mk fr.d bs.cur.reverse (some it.d.value) :: fr.before }
    | [] => { bs with cur := .mk it.d [] none :: bs.cur }          -- stray closing tag: leaf

/-- unclosed elements stay open to the end of input -/
def closeAll : List Frame → List Node → List Node
  | [], cur => cur
  | fr :: rest, cur => closeAll rest (.mk fr.d cur.reverse none :: fr.before)

def rootD : NodeD := { id := 0, kind := .root, value := "", tagName := "", attrs := [] }

/-- the tree of a compiled token list -/
def assemble (items : List Item) : Node :=
  let bs := items.foldl stepItem ⟨[], []⟩
  .mk rootD (closeAll bs.stack bs.cur).reverse none

/-- first node id of file `fileIdx` (ids are internal to the model; every root has id 0, token ids are ≥ 1) -/
def firstId (fileIdx : Nat) : Nat := fileIdx * 100000 + 1

/-- ParseTokens, state-passing form -/
def buildTreeS (cfg : Cfg) (fileIdx : Nat) (toks : List HS.Token) (tbl : Tbl) : LoadRes Node × Tbl :=
  mapRes assemble (compileToks cfg (firstId fileIdx) toks tbl)

/-- ParseTokens in the loader monad -/
def buildTree (cfg : Cfg) (fileIdx : Nat) (toks : List HS.Token) : LM (LoadRes Node) :=
  fun tbl => buildTreeS cfg fileIdx toks tbl

/-- value of the next sibling when it is whitespace-only text -/
def nextBlankOf : List Node → Option String
  | [] => none
  | nx :: _ => if RN.isBlankText nx then some nx.d.value else none

def setSib (k : Node) (prev : Option Nat) (nb : Option String) : Node :=
  .mk { k.d with prevTag := prev, nextBlank := nb } k.kids k.endVal

def nextPrev (k : Node) (prev : Option Nat) : Option Nat := if RN.isTagNode k then some k.d.id else prev

mutual
/-- annotate every child with its previous sibling tag and the following blank text (node.go) -/
def annotate : Node → Node
  | .mk d kids e => .mk d (annotateL none kids) e
def annotateL : Option Nat → List Node → List Node
  | _, [] => []
  | prev, k :: rest => setSib (annotate k) prev (nextBlankOf rest) :: annotateL (nextPrev k prev) rest
end

end EN

namespace EN
open EV (Val FnSpec)
open RN (CAttr Part NodeD Node NK Cls)

/-- evaluation context of one manager: compiled expressions and user functions -/
structure Ctx where
  exprs : Array EL.E
  fns : List (String × FnSpec)

def unsupportedEv : String := "\x00UNSUPPORTED"

/-- exp.Evaluate on a frame list (innermost first) -/
def evalExpr (cx : Ctx) (sc : List Val) (e : EL.E) : Except Cls Val × List String :=
  match (EV.eval cx.fns sc e).run {} with
  | .error () => (.error (.eval false false), [])          -- panic recovered by Evaluate (call log is lost with it; see harness)
  | .ok (v, st) =>
    let lg := st.calls.reverse ++ (if st.unsupported then [unsupportedEv] else [])
    match st.err with
    | some er => (.error (.eval er.sentinel er.nosuch), lg)
    | none => (.ok v, lg)

/-- Attr.Evaluate -/
def attrEvaluate (cx : Ctx) (a : CAttr) (sc : List Val) : Except Cls String × List String :=
  match a.value with
  | none => (.error .attrValueExpected, [])
  | some v =>
    if a.parts.isEmpty then (.ok v, [])
    else Id.run do
      let mut buf := ""
      let mut lg : List String := []
      for p in a.parts do
        match p with
        | .lit s => buf := buf ++ s
        | .code id =>
          match evalExpr cx sc (cx.exprs[id]!) with
          | (.error c, l) => return (.error c, lg ++ l)
          | (.ok r, l) =>
            lg := lg ++ l
            match EV.fmtV r with
            | some s => buf := buf ++ s
            | none => lg := lg ++ [unsupportedEv]
        | .other => pure ()
      return (.ok buf, lg)

def emptyMap : Val := .map "map[string]interface {}" []

/-- Attr.WithAssign followed by Combine(NewScope(result), data) -/
def withAssign (cx : Ctx) (a : CAttr) (sc : List Val) : Except Cls (List Val) × List String :=
  match a.value with
  | none => (.error .attrValueExpected, [])
  | some _ => Id.run do
    let mut names : List String := []
    let mut codes : List Nat := []
    for p in a.parts do
      match p with
      | .lit s =>
        let name := RN.trimSpace s
        if name == "" then continue
        if codes.length > names.length then return (.error .withSyntax, [])
        if !name.endsWith ":=" then return (.error .withSyntax, [])
        let mut name := RN.trimSpace (RN.trimSuffixS name ":=")
        if names.length > 0 then
          if !name.startsWith ";" then return (.error .withSyntax, [])
          name := RN.trimSpace (RN.trimPrefixS name ";")
        names := names ++ [name]
      | .code id =>
        if names.length != codes.length + 1 then return (.error .withSyntax, [])
        codes := codes ++ [id]
      | .other => pure ()
    if names.isEmpty then return (.error .withSyntax, [])
    if codes.length != names.length then return (.error .withSyntax, [])
    let mut kvs : List (String × Val) := []
    let mut lg : List String := []
    for (n, id) in names.zip codes do
      match evalExpr cx sc (cx.exprs[id]!) with
      | (.error c, l) => return (.error c, lg ++ l)
      | (.ok v, l) =>
        lg := lg ++ l
        kvs := kvs.filter (·.1 ≠ n) ++ [(n, v)]
    return (.ok (Val.map "map[string]interface {}" kvs :: sc), lg)

def indexOfC (s : String) (c : Char) : Option Nat :=
  let cs := s.toList
  let i := (cs.takeWhile (· ≠ c)).length
  if i < cs.length then some i else none
def sTake (s : String) (n : Nat) : String := String.ofList (s.toList.take n)
def sDrop (s : String) (n : Nat) : String := String.ofList (s.toList.drop n)

/-- extractRange (html/template.go) -/
def extractRange (s0 : String) : String × String × String :=
  let s := RN.trimSpace s0
  match indexOfC s ':' with
  | none => ("", "", s)
  | some i =>
    let obj := RN.trimSpace (sDrop s (i + 1))
    let hd := sTake s i
    match indexOfC hd ',' with
    | none => (RN.trimSpace hd, "", obj)
    | some j => (RN.trimSpace (sTake hd j), RN.trimSpace (sDrop hd (j + 1)), obj)

/-- processRange: exactly ONE surrounding pair of quotes — the delimiters of the attribute value — is removed -/
def stripOwnQuotes (av : String) : String :=
  match av.toList with
  | q :: rest =>
    if (q = '\'' || q = '"') && rest.getLast? = some q then String.ofList rest.dropLast else av
  | [] => av

/-- processRange up to the loop: one child scope per item -/
def rangeItems (cx : Ctx) (a : CAttr) (sc : List Val) : Except Cls (List (List Val)) × List String :=
  match a.value with
  | none => (.error .attrValueExpected, [])
  | some av =>
    let v := stripOwnQuotes av
    let (idxName, itemName, objName) := extractRange v
    match EL.parseCode objName with
    | .reject => (.error .rangeObject, [])
    | .unsupported => (.error .rangeObject, [unsupportedEv])
    | .accept e =>
      match evalExpr cx sc e with
      | (.error c, lg) => (.error c, lg)
      | (.ok obj, lg) =>
        let items : Option (List (Val × Val)) := match obj with
          | .slice _ xs _ | .array _ xs => some (xs.mapIdx fun i x => (Val.int .int (i + 1), x))
          | .str s => some (s.toUTF8.toList.mapIdx fun i b => (Val.int .int (i + 1), Val.int .uint8 b.toNat))
          | .map _ kvs => some (kvs.map fun kv => (Val.str kv.1, kv.2))
          | _ => none
        match items with
        | none => (.error .rangeKind, lg)
        | some items =>
          (.ok (items.map fun (i, x) =>
            Val.map "map[string]interface {}" (if idxName == itemName then [(itemName, x)] else [(idxName, i), (itemName, x)]) :: sc), lg)

/-- the manager: configuration, registry (files and fragments in one namespace), evaluation context -/
structure Mgr where
  cfg : Cfg
  templates : List (String × Node)
  files : List String
  cx : Ctx

def envOf (m : Mgr) : RN.Env (List Val) where
  evalStr := attrEvaluate m.cx
  withAssign := withAssign m.cx
  rangeItems := rangeItems m.cx
  tpl := fun name => (m.templates.find? (·.1 == name)).map (·.2)

def rcfgOf (cfg : Cfg) : RN.Cfg := { tagPrefix := cfg.tagPrefix, attrPrefix := cfg.attrPrefix }

/-- GetChildrenWithoutHeadTailBlankText -/
def trimBlankKids (kids : List Node) : List Node :=
  let n := kids.length
  (kids.zipIdx.filter fun (k, i) => !((i == 0 || i + 1 == n) && RN.isBlankText k)).map (·.1)

/-- root of a registered fragment -/
def fragRoot (kids : List Node) : Node := .mk rootD (trimBlankKids kids) none

/-- addDefinedTpl on one node: register its `define`, if any -/
def defineHere (cfg : Cfg) (cx : Ctx) (d : NodeD) (kids : List Node) (tpls : List (String × Node)) :
    LoadRes (List (String × Node)) :=
  if d.kind == .tag then
    match d.attrs.find? (fun a => a.name == cfg.attrPrefix ++ "define") with
    | none => .ok tpls
    | some a =>
      match attrEvaluate cx a [emptyMap] with
      | (.error _, _) => .err
      | (.ok nameS, lg) =>
        if lg.contains unsupportedEv then .unsupported
        else if tpls.any (·.1 == nameS) then .err
        else .ok (tpls ++ [(nameS, fragRoot kids)])
  else .ok tpls

mutual
/-- addDefinedTpl: pre-order walk registering every `define` -/
def addDefined (cfg : Cfg) (cx : Ctx) : Node → List (String × Node) → LoadRes (List (String × Node))
  | .mk d kids _, tpls =>
    match defineHere cfg cx d kids tpls with
    | .ok t => addDefinedL cfg cx kids t
    | .err => .err | .panic => .panic | .unsupported => .unsupported
def addDefinedL (cfg : Cfg) (cx : Ctx) : List Node → List (String × Node) → LoadRes (List (String × Node))
  | [], tpls => .ok tpls
  | k :: ks, tpls =>
    match addDefined cfg cx k tpls with
    | .ok t => addDefinedL cfg cx ks t
    | .err => .err | .panic => .panic | .unsupported => .unsupported
end

def scanCfg (cfg : Cfg) : HS.Cfg := ⟨cfg.textTags.map String.toList⟩

/-- the manager after the fragments of a file were registered -/
def withTemplates (m : Mgr) (name : String) (cx : Ctx) (r : LoadRes (List (String × Node))) : LoadRes Mgr :=
  match r with
  | .ok tpls => .ok { m with templates := tpls, files := m.files ++ [name], cx := cx }
  | .err => .err | .panic => .panic | .unsupported => .unsupported

/-- register a parsed file: the file is registered before its fragments (and would stay registered when a fragment
    name is a duplicate) -/
def registerFile (cfg : Cfg) (fns : List (String × FnSpec)) (name : String) (m : Mgr) (r : LoadRes Node × Tbl) : LoadRes Mgr :=
  match r.1 with
  | .ok root0 =>
    withTemplates m name { exprs := r.2, fns := fns }
      (addDefined cfg { exprs := r.2, fns := fns } (annotate root0) (m.templates ++ [(name, annotate root0)]))
  | .err => .err | .panic => .panic | .unsupported => .unsupported

/-- tplManager.Add for one file -/
def addFile (cfg : Cfg) (fns : List (String × FnSpec)) (fileIdx : Nat) (name : String) (src : String) (m : Mgr) : LoadRes Mgr :=
  if m.templates.any (·.1 == name) then .err else
  match HS.scan (scanCfg cfg) src.toList with
  | .error (.panic _) => .panic
  | .error _ => .err
  | .ok toks => registerFile cfg fns name m (buildTreeS cfg fileIdx toks m.cx.exprs)

def emptyMgr (cfg : Cfg) (fns : List (String × FnSpec)) : Mgr :=
  { cfg := cfg, templates := [], files := [], cx := { exprs := #[], fns := fns } }

/-- load the files (name, source) in order, numbering them `i+1, i+2, …`; the first failure decides -/
def loadFrom (cfg : Cfg) (fns : List (String × FnSpec)) : Nat → List (String × String) → Mgr → LoadRes Mgr
  | _, [], m => .ok m
  | i, f :: rest, m =>
    match addFile cfg fns (i + 1) f.1 f.2 m with
    | .ok m' => loadFrom cfg fns (i + 1) rest m'
    | .err => .err | .panic => .panic | .unsupported => .unsupported

def loadFiles (cfg : Cfg) (fns : List (String × FnSpec)) (files : List (String × String)) : LoadRes Mgr :=
  loadFrom cfg fns 0 files (emptyMgr cfg fns)

def fuelFor (_m : Mgr) : Nat := 100000

end EN
