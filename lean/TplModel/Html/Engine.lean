import TplModel.Html.Scan
import TplModel.Html.CodeScan
import TplModel.Exp.Eval
import TplModel.Html.Render
import TplModel.Generated.Facts
/-! Loader (scan → compileAttr → ParseTokens → manager registry) and the concrete evaluation interface that
    instantiates the generic renderer `RN` with the expression evaluator `EV`. Executable; used by the driver. -/
namespace EN
open EV (Val FnSpec)
open RN (CAttr Part NodeD Node NK Cls)

structure Cfg where
  textTags : List String := Facts.defaultTextTags
  voidTags : List String := Facts.defaultVoidElements
  tagPrefix : String := "t:"
  attrPrefix : String := ":"

inductive LoadRes (α : Type)
  | ok (a : α) | err | panic | unsupported
deriving Inhabited

/-- loader state: table of compiled expressions (RN.Part.code refers to it by index) -/
abbrev LM := StateM (Array EL.E)

/-- compileAttr over one attribute -/
def compileAttr (cfg : Cfg) (a : HS.Attr) : LM (LoadRes CAttr) := do
  let name := String.ofList a.name
  let value : Option (List Char) :=
    if a.value.isNone && name == cfg.attrPrefix ++ "else" then some "\"true\"".toList else a.value
  match value with
  | none => return .ok ⟨name, none, []⟩
  | some v =>
    if !name.startsWith cfg.attrPrefix then return .ok ⟨name, some (String.ofList v), []⟩
    else
      let toks := CS.scan a.valueStart v
      let isErr : Bool := match toks.getLast? with
        | some t => t.value == "ERR".toList && t.start.line == 0
        | none => false
      if isErr then return .err else
      let mut parts : List Part := []
      for t in toks do
        match t.kind with
        | .literal => parts := parts ++ [.lit (String.ofList t.value)]
        | .codeValue =>
          match EL.parseCode (String.ofList t.value) with
          | .accept e =>
            let tbl ← get
            set (tbl.push e)
            parts := parts ++ [.code tbl.size]
          | .reject => return .err
          | .unsupported => return .unsupported
        | _ => parts := parts ++ [.other]
      return .ok ⟨name, some (String.ofList v), parts⟩

def compileAttrs (cfg : Cfg) : List HS.Attr → LM (LoadRes (List CAttr))
  | [] => return .ok []
  | a :: as => do
    match ← compileAttr cfg a with
    | .ok c =>
      match ← compileAttrs cfg as with
      | .ok cs => return .ok (c :: cs)
      | .err => return .err | .panic => return .panic | .unsupported => return .unsupported
    | .err => return .err | .panic => return .panic | .unsupported => return .unsupported

def lowerS (s : String) : String := String.ofList (s.toList.map Char.toLower)

/-- Tag.IsSelfClose: decided on the LAST attribute in source order -/
def isSelfClose (name : String) (attrs : List CAttr) : Bool :=
  match attrs.getLast? with
  | none => name.endsWith "/"
  | some c => match c.value with
    | none => c.name.endsWith "/"
    | some v => v.endsWith "/"

/-- weight of SortedAttr, from the table extracted from html/tag.go -/
def weight (cfg : Cfg) (a : CAttr) : Int × Int :=
  if a.name.startsWith cfg.attrPrefix then
    let cmd := RN.dropPrefix a.name cfg.attrPrefix
    (0, ((Facts.attrWeights.find? (·.1 == cmd)).map (·.2)).getD 0)
  else (1, 0)

/-- SortedAttr (stable; the comparator is a strict weak order as long as no plain attribute is literally named
    like a weighted directive) -/
def sortedAttrs (cfg : Cfg) (attrs : List CAttr) : List CAttr :=
  let lt (a b : CAttr) : Bool :=
    let (pa, wa) := weight cfg a; let (pb, wb) := weight cfg b
    pa < pb || (pa == pb && wa < wb)
  attrs.foldl (fun acc a =>
    let (before, after) := acc.span (fun b => !lt a b)
    before ++ [a] ++ after) []

structure Frame where
  d : NodeD
  before : List Node       -- reversed

/-- ParseTokens (a closing tag at the root is kept as a leaf) -/
def buildTree (cfg : Cfg) (fileIdx : Nat) (toks : List HS.Token) : LM (LoadRes Node) := do
  let mut i := 0
  let mut stack : List Frame := []
  let mut cur : List Node := []
  for t in toks do
    let id := fileIdx * 100000 + i + 1
    i := i + 1
    let value := String.ofList t.value
    match t.kind, t.tag with
    | .tag, some tg =>
      match ← compileAttrs cfg tg.attrs with
      | .err => return .err | .panic => return .panic | .unsupported => return .unsupported
      | .ok attrs =>
        let name := String.ofList tg.name
        let isVoid := cfg.voidTags.any (fun v => lowerS v == lowerS name)
        let selfClose := isSelfClose name attrs
        let isClose := name.startsWith "/" || selfClose
        let d : NodeD := { id := id, kind := .tag, value := value, tagName := name, attrs := sortedAttrs cfg attrs }
        if isClose || isVoid then
          if selfClose || isVoid then cur := .mk d [] none :: cur
          else
            match stack with
            | fr :: rest =>
              cur := .mk fr.d cur.reverse (some value) :: fr.before
              stack := rest
            | [] => cur := .mk d [] none :: cur          -- stray closing tag: leaf
        else
          stack := ⟨d, cur⟩ :: stack
          cur := []
    | .tag, none => return .err
    | k, _ =>
      let nk := match k with | .text => NK.text | .comment => NK.comment | _ => NK.cdata
      cur := .mk { id := id, kind := nk, value := value, tagName := "", attrs := [] } [] none :: cur
  -- unclosed elements stay open to the end of input
  let mut cur' := cur
  for fr in stack do
    cur' := .mk fr.d cur'.reverse none :: fr.before
  return .ok (.mk { id := fileIdx * 100000, kind := .root, value := "", tagName := "", attrs := [] } cur'.reverse none)

/-- annotate every child with its previous sibling tag and the following blank text (node.go) -/
partial def annotate (n : Node) : Node :=
  let kids := n.kids
  let rec go (prev : Option Nat) : List Node → List Node
    | [] => []
    | k :: rest =>
      let nextBlank := match rest.head? with
        | some nx => if RN.isBlankText nx then some nx.d.value else none
        | none => none
      let k' := annotate k
      let k'' : Node := .mk { k'.d with prevTag := prev, nextBlank := nextBlank } k'.kids k'.endVal
      k'' :: go (if RN.isTagNode k then some k.d.id else prev) rest
  .mk n.d (go none kids) n.endVal

end EN

namespace EN
open EV (Val FnSpec)
open RN (CAttr Part NodeD Node NK Cls)

/-- evaluation context of one manager: compiled expressions and user functions -/
structure Ctx where
  exprs : Array EL.E
  fns : List (String × FnSpec)

def unsupportedEv : String := "\x00UNSUPPORTED"

/-- exp.Evaluate on a frame list (innermost first) -/
def evalExpr (cx : Ctx) (sc : List Val) (e : EL.E) : Except Cls Val × List String :=
  match (EV.eval cx.fns sc e).run {} with
  | .error () => (.error (.eval false false), [])          -- panic recovered by Evaluate (call log is lost with it; see harness)
  | .ok (v, st) =>
    let lg := st.calls.reverse ++ (if st.unsupported then [unsupportedEv] else [])
    match st.err with
    | some er => (.error (.eval er.sentinel er.nosuch), lg)
    | none => (.ok v, lg)

/-- Attr.Evaluate -/
def attrEvaluate (cx : Ctx) (a : CAttr) (sc : List Val) : Except Cls String × List String :=
  match a.value with
  | none => (.error .attrValueExpected, [])
  | some v =>
    if a.parts.isEmpty then (.ok v, [])
    else Id.run do
      let mut buf := ""
      let mut lg : List String := []
      for p in a.parts do
        match p with
        | .lit s => buf := buf ++ s
        | .code id =>
          match evalExpr cx sc (cx.exprs[id]!) with
          | (.error c, l) => return (.error c, lg ++ l)
          | (.ok r, l) =>
            lg := lg ++ l
            match EV.fmtV r with
            | some s => buf := buf ++ s
            | none => lg := lg ++ [unsupportedEv]
        | .other => pure ()
      return (.ok buf, lg)

def emptyMap : Val := .map "map[string]interface {}" []

/-- Attr.WithAssign followed by Combine(NewScope(result), data) -/
def withAssign (cx : Ctx) (a : CAttr) (sc : List Val) : Except Cls (List Val) × List String :=
  match a.value with
  | none => (.error .attrValueExpected, [])
  | some _ => Id.run do
    let mut names : List String := []
    let mut codes : List Nat := []
    for p in a.parts do
      match p with
      | .lit s =>
        let name := RN.trimSpace s
        if name == "" then continue
        if codes.length > names.length then return (.error .withSyntax, [])
        if !name.endsWith ":=" then return (.error .withSyntax, [])
        let mut name := RN.trimSpace (RN.trimSuffixS name ":=")
        if names.length > 0 then
          if !name.startsWith ";" then return (.error .withSyntax, [])
          name := RN.trimSpace (RN.trimPrefixS name ";")
        names := names ++ [name]
      | .code id =>
        if names.length != codes.length + 1 then return (.error .withSyntax, [])
        codes := codes ++ [id]
      | .other => pure ()
    if names.isEmpty then return (.error .withSyntax, [])
    if codes.length != names.length then return (.error .withSyntax, [])
    let mut kvs : List (String × Val) := []
    let mut lg : List String := []
    for (n, id) in names.zip codes do
      match evalExpr cx sc (cx.exprs[id]!) with
      | (.error c, l) => return (.error c, lg ++ l)
      | (.ok v, l) =>
        lg := lg ++ l
        kvs := kvs.filter (·.1 ≠ n) ++ [(n, v)]
    return (.ok (Val.map "map[string]interface {}" kvs :: sc), lg)

def indexOfC (s : String) (c : Char) : Option Nat :=
  let cs := s.toList
  let i := (cs.takeWhile (· ≠ c)).length
  if i < cs.length then some i else none
def sTake (s : String) (n : Nat) : String := String.ofList (s.toList.take n)
def sDrop (s : String) (n : Nat) : String := String.ofList (s.toList.drop n)

/-- extractRange (html/template.go) -/
def extractRange (s0 : String) : String × String × String :=
  let s := RN.trimSpace s0
  match indexOfC s ':' with
  | none => ("", "", s)
  | some i =>
    let obj := RN.trimSpace (sDrop s (i + 1))
    let hd := sTake s i
    match indexOfC hd ',' with
    | none => (RN.trimSpace hd, "", obj)
    | some j => (RN.trimSpace (sTake hd j), RN.trimSpace (sDrop hd (j + 1)), obj)

/-- processRange up to the loop: one child scope per item -/
def rangeItems (cx : Ctx) (a : CAttr) (sc : List Val) : Except Cls (List (List Val)) × List String :=
  match a.value with
  | none => (.error .attrValueExpected, [])
  | some av =>
    let v := RN.trimSuffixS (RN.trimPrefixS (RN.trimSuffixS (RN.trimPrefixS av "'") "'") "\"") "\""
    let (idxName, itemName, objName) := extractRange v
    match EL.parseCode objName with
    | .reject => (.error .rangeObject, [])
    | .unsupported => (.error .rangeObject, [unsupportedEv])
    | .accept e =>
      match evalExpr cx sc e with
      | (.error c, lg) => (.error c, lg)
      | (.ok obj, lg) =>
        let items : Option (List (Val × Val)) := match obj with
          | .slice _ xs _ | .array _ xs => some (xs.mapIdx fun i x => (Val.int .int (i + 1), x))
          | .str s => some (s.toUTF8.toList.mapIdx fun i b => (Val.int .int (i + 1), Val.int .uint8 b.toNat))
          | .map _ kvs => some (kvs.map fun kv => (Val.str kv.1, kv.2))
          | _ => none
        match items with
        | none => (.error .rangeKind, lg)
        | some items =>
          (.ok (items.map fun (i, x) =>
            Val.map "map[string]interface {}" (if idxName == itemName then [(itemName, x)] else [(idxName, i), (itemName, x)]) :: sc), lg)

/-- the manager: configuration, registry (files and fragments in one namespace), evaluation context -/
structure Mgr where
  cfg : Cfg
  templates : List (String × Node)
  files : List String
  cx : Ctx

def envOf (m : Mgr) : RN.Env (List Val) where
  evalStr := attrEvaluate m.cx
  withAssign := withAssign m.cx
  rangeItems := rangeItems m.cx
  tpl := fun name => (m.templates.find? (·.1 == name)).map (·.2)

def rcfgOf (cfg : Cfg) : RN.Cfg := { tagPrefix := cfg.tagPrefix, attrPrefix := cfg.attrPrefix }

/-- GetChildrenWithoutHeadTailBlankText -/
def trimBlankKids (kids : List Node) : List Node :=
  let n := kids.length
  (kids.zipIdx.filter fun (k, i) => !((i == 0 || i + 1 == n) && RN.isBlankText k)).map (·.1)

/-- addDefinedTpl: pre-order walk registering every `define` -/
partial def addDefined (cfg : Cfg) (cx : Ctx) (n : Node) (tpls : List (String × Node)) : LoadRes (List (String × Node)) :=
  let here : LoadRes (List (String × Node)) :=
    if n.d.kind == .tag then
      match n.d.attrs.find? (fun a => a.name == cfg.attrPrefix ++ "define") with
      | none => .ok tpls
      | some a =>
        match attrEvaluate cx a [emptyMap] with
        | (.error _, _) => .err
        | (.ok nameS, lg) =>
          if lg.contains unsupportedEv then .unsupported
          else if tpls.any (·.1 == nameS) then .err
          else .ok (tpls ++ [(nameS, .mk { id := n.d.id + 50000, kind := .root, value := "", tagName := "", attrs := [] } (trimBlankKids n.kids) none)])
    else .ok tpls
  n.kids.foldl (fun acc k => match acc with | .ok t => addDefined cfg cx k t | r => r) here

/-- tplManager.Add for one file -/
def addFile (cfg : Cfg) (fns : List (String × FnSpec)) (fileIdx : Nat) (name : String) (src : String) (m : Mgr) : LoadRes Mgr :=
  if m.templates.any (·.1 == name) then .err else
  match HS.scan ⟨cfg.textTags.map String.toList⟩ src.toList with
  | .error (.panic _) => .panic
  | .error _ => .err
  | .ok toks =>
    let (r, exprs) := (buildTree cfg fileIdx toks).run m.cx.exprs
    match r with
    | .err => .err | .panic => .panic | .unsupported => .unsupported
    | .ok root0 =>
      let root := annotate root0
      let cx : Ctx := { exprs := exprs, fns := fns }
      -- the file is registered before its fragments (and stays registered when a fragment name is a duplicate)
      match addDefined cfg cx root (m.templates ++ [(name, root)]) with
      | .ok tpls => .ok { m with templates := tpls, files := m.files ++ [name], cx := cx }
      | .err => .err | .panic => .panic | .unsupported => .unsupported

def fuelFor (_m : Mgr) : Nat := 100000

end EN
