import TplModel.Html.Scan
namespace CS
open HS (Pos)

inductive Kind | begEnd | literal | codeStart | codeValue | codeEnd
deriving Repr, DecidableEq

structure CTok where
  kind : Kind
  start : Pos
  stop : Pos
  value : List Char
deriving Repr

inductive St | init | fin | text | block
deriving Repr, DecidableEq

inductive Res
  | ok (ts : List CTok)
  | err                 -- a non-EOF error: bad first char
  | compileErr          -- placeholder (expression compile errors are decided by the parser model)
deriving Repr

/-- The whole of scan_code.go as a recursive function over the remaining runes.
    `GetAllTokens` turns an error wrapping io.EOF into success only in state `codeEnd`
    (closing quote consumed); every other end of input is an error (marker token `ERR`). -/
structure S where
  pos : Pos
  firstCh : Char
  brace : Nat
  toks : List CTok      -- reversed

def S.emit (s : S) (t : CTok) : S := { s with toks := t :: s.toks }

/-- result of a failed scan: the tokens so far followed by the error marker -/
def errMark : CTok := ⟨.begEnd, ⟨0,0⟩, ⟨0,0⟩, "ERR".toList⟩
def S.fail (s : S) : List CTok := s.toks.reverse ++ [errMark]

/-- scanString: returns the raw string (without the opening quote, with the closing one) and the rest;
    none = EOF inside the string -/
def scanString (quote : Char) : Nat → Pos → List Char → List Char → Option (List Char × Pos × List Char)
  | 0, _, _, _ => none
  | _+1, _, [], _ => none
  | f+1, p, c :: rest, acc =>
    let p1 := p.advance c
    if quote = '`' then
      if c = '`' then some ((c :: acc).reverse, p1, rest) else scanString quote f p1 rest (c :: acc)
    else if c = '\\' then
      match rest with
      | [] => none
      | d :: rest' => scanString quote f (p1.advance d) rest' (d :: c :: acc)
    else if c = quote then some ((c :: acc).reverse, p1, rest)
    else scanString quote f p1 rest (c :: acc)

mutual
/-- state codeText: scanLiteral -/
def scanLiteral : Nat → S → Pos → List Char → List Char → List CTok
  | 0, s, _, _, _ => s.toks.reverse
  | f+1, s, start, buf, cs =>
    match cs with
    | [] => s.fail                               -- EOF inside the literal part: error
    | c :: rest =>
      let endP := s.pos
      let p1 := s.pos.advance c
      if (c = '"' || c = '\'') && c = s.firstCh then
        if buf.isEmpty then
          -- returns the closing quote directly; next scanQuot hits EOF (swallowed) or more input
          scanQuot f ({ s with pos := p1 }.emit ⟨.begEnd, start, p1, [c]⟩) true rest
        else
          -- UnRead: closing quote re-read by scanQuot
          scanQuot f ({ s with pos := endP }.emit ⟨.literal, start, endP, buf.reverse⟩) true cs
      else if c = '$' then
        match rest with
        | '{' :: rest' =>
          let p2 := p1.advance '{'
          let tok : CTok := ⟨.codeStart, endP, p2, "${".toList⟩
          let s' := if buf.isEmpty then { s with pos := p2 }.emit tok
                    else ({ s with pos := p2 }.emit ⟨.literal, start, endP, buf.reverse⟩).emit tok
          scanCode f s' p2 [] rest'
        | _ => scanLiteral f { s with pos := p1 } start (c :: buf) rest     -- NextRune + UnRead, or EOF
      else scanLiteral f { s with pos := p1 } start (c :: buf) rest
/-- state codeInit / codeEnd: scanQuot -/
def scanQuot : Nat → S → Bool → List Char → List CTok
  | 0, s, _, _ => s.toks.reverse
  | f+1, s, closing, cs =>
    match cs with
    | [] => if closing then s.toks.reverse else s.fail   -- EOF: fine only after the closing quote (state codeEnd)
    | c :: rest =>
      let p1 := s.pos.advance c
      if c = '"' || c = '\'' then
        let s' := { s with pos := p1, firstCh := c }.emit ⟨.begEnd, s.pos, p1, [c]⟩
        if closing then s'.toks.reverse          -- done = true
        else scanLiteral f s' p1 [] rest
      else s.fail                                -- not a quote
/-- state codeBlock: scanCode -/
def scanCode : Nat → S → Pos → List Char → List Char → List CTok
  | 0, s, _, _, _ => s.toks.reverse
  | f+1, s, start, buf, cs =>
    match cs with
    | [] => s.fail                               -- EOF inside ${ … : error
    | c :: rest =>
      let endP := s.pos
      let p1 := s.pos.advance c
      if c = '{' then scanCode f { s with pos := p1, brace := s.brace + 1 } start (c :: buf) rest
      else if c = '}' then
        if s.brace = 0 then
          let s' := ({ s with pos := p1 }.emit ⟨.codeValue, start, endP, buf.reverse⟩).emit ⟨.codeEnd, endP, p1, ['}']⟩
          scanLiteral f s' p1 [] rest
        else scanCode f { s with pos := p1, brace := s.brace - 1 } start (c :: buf) rest
      else if c = '"' || c = '\'' || c = '`' then
        match scanString c (rest.length + 1) p1 rest [] with
        | some (str, p2, rest') => scanCode f { s with pos := p2 } start (str.reverse ++ (c :: buf)) rest'
        | none => s.fail                         -- EOF inside a string: error
      else scanCode f { s with pos := p1 } start (c :: buf) rest
end

def scan (start : Pos) (v : List Char) : List CTok :=
  scanQuot (3 * v.length + 3) ⟨start, ' ', 0, []⟩ false v

end CS
