/-! # Renderer of html/template.go — faithful re-entrant model `RN.exec…` and structural specification `RN.ref…`

Both are generic in the scope type `Sc` and in an evaluation interface `Env` (attribute evaluation, `with`
assignment, range expansion, template lookup), so every theorem holds for all expressions and all data; the
driver instantiates `Env` with the concrete evaluator (`TplModel/Html/Engine.lean`).

Output is a list of *chunks*: one chunk per `w.Write` call on the current writer. Nested executions that the Go
code directs into a `strings.Builder` (re-execution by if/range, fragments) are joined into the enclosing chunk
and are dropped when they fail; the *event log* (user-function calls made by evaluations) is kept in any case.

Everything is fuel-indexed; `Status.fuel` is never confused with an error of the code. -/
namespace RN

inductive Cls
  | eval (sentinel nosuch : Bool) | attrValueExpected | withSyntax | unexpectedElse | rangeObject | rangeKind | tplNotFound | tooDeep | nilTag
deriving DecidableEq, Repr, Inhabited

inductive Part
  | lit (s : String)
  | code (id : Nat)            -- index of the compiled expression in the loader's table
  | other                      -- BegEnd / CodeStart / CodeEnd
deriving DecidableEq, Repr, Inhabited

structure CAttr where
  name : String
  value : Option String
  parts : List Part            -- ValueTokens (empty = not compiled)
deriving DecidableEq, Repr, Inhabited

inductive NK | root | tag | text | comment | cdata
deriving DecidableEq, Repr, Inhabited

structure NodeD where
  id : Nat
  kind : NK
  value : String                  -- token value
  tagName : String
  attrs : List CAttr              -- already in SortedAttr order
  prevTag : Option Nat := none    -- id of the previous sibling that is a tag (GetPreviousSiblingTag)
  nextBlank : Option String := none  -- value of the next sibling when it is whitespace-only text (GetNextSibling)
deriving Repr, Inhabited

inductive Node
  | mk (d : NodeD) (kids : List Node) (endVal : Option String)
deriving Repr, Inhabited

def Node.d : Node → NodeD | .mk d _ _ => d
def Node.kids : Node → List Node | .mk _ k _ => k
def Node.endVal : Node → Option String | .mk _ _ e => e

structure Cfg where
  tagPrefix : String := "t:"
  attrPrefix : String := ":"
  maxDepth : Nat := 256          -- maxFragmentDepth
deriving Repr, Inhabited

/-- evaluation interface: result (or error class) and the events (user-function calls) of that evaluation -/
structure Env (Sc : Type) where
  evalStr : CAttr → Sc → Except Cls String × List String           -- Attr.Evaluate
  withAssign : CAttr → Sc → Except Cls Sc × List String            -- WithAssign + Combine
  rangeItems : CAttr → Sc → Except Cls (List Sc) × List String     -- processRange: one child scope per item
  tpl : String → Option Node                                       -- manager.templates: fragment / file root

inductive Status | ok | err (c : Cls) | fuel
deriving DecidableEq, Repr, Inhabited

abbrev NC := Nat → Option Bool          -- nodeCondition
abbrev Fl := Nat → Nat                  -- currentAttrs: bit 1 = cond, bit 2 = range
def setNc (nc : NC) (i : Nat) (b : Bool) : NC := fun j => if j = i then some b else nc j
def setFl (fl : Fl) (i : Nat) (v : Nat) : Fl := fun j => if j = i then v else fl j
def emptyNc : NC := fun _ => none
def emptyFl : Fl := fun _ => 0

/-- result of an execution on the current writer -/
structure R where
  st : Status
  out : List String := []
  log : List String := []
  nc : NC
  fl : Fl

def R.andThen (r : R) (k : NC → Fl → R) : R :=
  match r.st with
  | .ok => let r2 := k r.nc r.fl; { st := r2.st, out := r.out ++ r2.out, log := r.log ++ r2.log, nc := r2.nc, fl := r2.fl }
  | _ => r

def R.okR (out : List String) (nc : NC) (fl : Fl) : R := { st := .ok, out := out, nc := nc, fl := fl }
def R.fail (c : Cls) (log : List String) (nc : NC) (fl : Fl) : R := { st := .err c, log := log, nc := nc, fl := fl }
def R.noFuel (nc : NC) (fl : Fl) : R := { st := .fuel, nc := nc, fl := fl }

/-- an execution directed into a strings.Builder: chunks are joined; on failure the buffered text is dropped -/
def R.buffered (r : R) : R :=
  match r.st with
  | .ok => { r with out := [String.join r.out] }
  | _ => { r with out := [] }
def R.text (r : R) : String := String.join r.out

inductive AK
  | with_ | cond (isIf : Bool) | range | remove | text | raw | define | replace | insert
  | dyn (cmd : String) | plain
deriving DecidableEq, Repr

def dropPrefix (s p : String) : String := String.ofList (s.toList.drop p.length)

def classify (cfg : Cfg) (a : CAttr) : AK :=
  if a.name.startsWith cfg.attrPrefix then
    let cmd := dropPrefix a.name cfg.attrPrefix
    if cmd = "with" then .with_
    else if cmd = "if" then .cond true
    else if cmd = "else-if" || cmd = "elseif" || cmd = "elif" || cmd = "else" then .cond false
    else if cmd = "range" then .range
    else if cmd = "remove" then .remove
    else if cmd = "text" then .text
    else if cmd = "raw" then .raw
    else if cmd = "define" then .define
    else if cmd = "replace" then .replace
    else if cmd = "insert" then .insert
    else .dyn cmd
  else .plain

def hasKind (cfg : Cfg) (attrs : List CAttr) (p : AK → Bool) : Bool := attrs.any fun a => p (classify cfg a)
def isCondK : AK → Bool | .cond _ => true | _ => false
def hasCond (cfg : Cfg) (attrs : List CAttr) : Bool := hasKind cfg attrs isCondK
def hasRange (cfg : Cfg) (attrs : List CAttr) : Bool := hasKind cfg attrs (· == .range)

inductive ChildMode
  | unset | nop
  | textLike (a : CAttr) (isText : Bool)
  | abf                                   -- remove="all-but-first"
deriving Repr, Inhabited

/-- locals of processTagStart -/
structure PS (Sc : Type) where
  data : Sc
  noPrint : Bool
  child : ChildMode
  tagBuf : String := ""
  contentBuf : String := ""
  tokenBuf : String := ""

/-- result of processTagStart -/
structure PR (Sc : Type) where
  st : Status
  ps : PS Sc
  log : List String := []
  nc : NC
  fl : Fl

def lowerS (s : String) : String := String.ofList (s.toList.map Char.toLower)
def trimSlash (s : String) : String := if s.endsWith "/" then String.ofList (s.toList.take (s.length - 1)) else s

def isSpaceC (c : Char) : Bool :=
  let n := c.toNat
  n == 0x20 || (0x09 ≤ n && n ≤ 0x0D) || n == 0x85 || n == 0xA0 || n == 0x1680 ||
  (0x2000 ≤ n && n ≤ 0x200A) || n == 0x2028 || n == 0x2029 || n == 0x202F || n == 0x205F || n == 0x3000
def trimSpace (s : String) : String :=
  String.ofList ((s.toList.dropWhile isSpaceC).reverse.dropWhile isSpaceC).reverse
def trimPrefixS (s p : String) : String := if s.startsWith p then dropPrefix s p else s
def trimSuffixS (s p : String) : String := if s.endsWith p then String.ofList (s.toList.take (s.length - p.length)) else s

def isHiddenComment (v : String) : Bool :=
  let c := trimSpace (trimSuffixS (trimPrefixS v "<!--") "-->")
  c.startsWith "/*" && c.endsWith "*/"

def escapeHtml (s : String) : String :=
  String.join (s.toList.map fun c =>
    if c = '&' then "&amp;" else if c = '\'' then "&#39;" else if c = '<' then "&lt;"
    else if c = '>' then "&gt;" else if c = '"' then "&#34;" else c.toString)

def isTagNode (n : Node) : Bool := n.d.kind == .tag
def isBlankText (n : Node) : Bool := n.d.kind == .text && trimSpace n.d.value == ""

/-- initial option state of processTagStart, before the attribute loop (block tag, define/replace, hidden by
    a not-yet-processed if/range, insert) -/
def initOpt (cfg : Cfg) (d : NodeD) (flags : Nat) : Bool × ChildMode :=
  let np0 := trimSlash (lowerS d.tagName) == cfg.tagPrefix ++ "block"
  let (np, ch) := if hasKind cfg d.attrs (fun k => k == .define || k == .replace) then (true, ChildMode.nop) else (np0, ChildMode.unset)
  let (np, ch) := if hasCond cfg d.attrs && flags &&& 1 == 0 then (true, ChildMode.nop) else (np, ch)
  let (np, ch) := if hasRange cfg d.attrs && flags &&& 2 == 0 then (true, ChildMode.nop) else (np, ch)
  let ch := if hasKind cfg d.attrs (· == .insert) then ChildMode.nop else ch
  (np, ch)

def applyRemove {Sc} (a : CAttr) (ps : PS Sc) : PS Sc :=
  let av := a.value.getD ""
  if av == "\"all\"" || av == "'all'" then { ps with noPrint := true, child := .nop }
  else if av == "\"body\"" || av == "'body'" then { ps with child := .nop }
  else if av == "\"tag\"" || av == "'tag'" then { ps with noPrint := true }
  else if av == "\"all-but-first\"" || av == "'all-but-first'" then
    match ps.child with
    | .unset => { ps with child := .abf }
    | _ => ps
  else ps

/-- the attributes that the first (tag) child of an all-but-first element is found by -/
def abfParts (kids : List Node) : Option Node × Option Node × Option Node :=
  let tagIdx := (kids.takeWhile (fun k => !isTagNode k)).length
  let tagNode := kids[tagIdx]?
  let before := if tagIdx > 0 && tagNode.isSome then (match kids.head? with | some k => if isBlankText k then some k else none | none => none) else none
  let after := match kids.getLast? with | some k => if isBlankText k then some k else none | none => none
  (before, tagNode, after)

variable {Sc : Type}

/-- one attribute of the "rest" phase (everything except with / if-family / range), shared by the faithful model
    and the specification. `frag name sc nc fl` executes a fragment into a buffer. -/
def bodyStep (cfg : Cfg) (env : Env Sc) (frag : Node → Sc → R) (d : NodeD) (a : CAttr) (k : AK) (ps : PS Sc)
    (nc : NC) (fl : Fl) : PR Sc :=
  let okP (ps : PS Sc) (log : List String := []) : PR Sc := { st := .ok, ps := ps, log := log, nc := nc, fl := fl }
  let errP (c : Cls) (log : List String := []) : PR Sc := { st := .err c, ps := ps, log := log, nc := nc, fl := fl }
  match k with
  | .remove => okP (applyRemove a ps)
  | .text | .raw =>
    match ps.child with
    | .unset => okP { ps with child := .textLike a (k == .text) }
    | _ => okP ps
  | .define => okP ps
  | .replace | .insert =>
    match env.evalStr a ps.data with
    | (.error c, lg) => errP c lg
    | (.ok name, lg) =>
      match env.tpl name with
      | none => errP .tplNotFound lg
      | some t =>
        let r := frag t ps.data
        match r.st with
        | .ok =>
          let ps' := if k == .replace then { ps with tokenBuf := ps.tokenBuf ++ r.text } else { ps with contentBuf := ps.contentBuf ++ r.text }
          okP ps' (lg ++ r.log)
        | st => { st := st, ps := ps, log := lg ++ r.log, nc := nc, fl := fl }
  | .dyn cmd =>
    match env.evalStr a ps.data with
    | (.error c, lg) => errP c lg
    | (.ok v, lg) =>
      okP (if ps.noPrint then ps else { ps with tagBuf := ps.tagBuf ++ " " ++ cmd ++ "=\"" ++ escapeHtml v ++ "\"" }) lg
  | .plain =>
    if d.attrs.any (fun b => b.name == cfg.attrPrefix ++ a.name) then okP ps
    else okP (if ps.noPrint then ps else
      { ps with tagBuf := ps.tagBuf ++ " " ++ a.name ++ (match a.value with | some v => "=" ++ v | none => "") })
  | _ => okP ps

/-- end of processTagStart: `>` and the inserted content close the tag buffer, which joins the token buffer -/
def finishTag (ps : PS Sc) : PS Sc :=
  if ps.noPrint then ps else { ps with tokenBuf := ps.tokenBuf ++ (ps.tagBuf ++ ">" ++ ps.contentBuf) }

def PR.andThen (r : PR Sc) (k : PS Sc → NC → Fl → PR Sc) : PR Sc :=
  match r.st with
  | .ok => let r2 := k r.ps r.nc r.fl; { r2 with log := r.log ++ r2.log }
  | _ => r

/-! ## faithful model -/

mutual
/-- `(*htmlTemplate).execute` with `opt == nil` -/
def exec (cfg : Cfg) (env : Env Sc) : Nat → Nat → NC → Fl → Node → Sc → R
  | 0, _, nc, fl, _, _ => R.noFuel nc fl
  | f+1, depth, nc, fl, node, sc =>
    let d := node.d
    match d.kind with
    | .tag =>
      let (np, ch) := initOpt cfg d (fl d.id)
      let ps0 : PS Sc := { data := sc, noPrint := np, child := ch, tagBuf := if np then "" else "<" ++ d.tagName }
      let pr := procAttrs cfg env f depth nc fl node d.attrs ps0
      match pr.st with
      | .ok =>
        let ps := finishTag pr.ps
        let r0 : R := { st := .ok, out := [ps.tokenBuf], log := pr.log, nc := pr.nc, fl := pr.fl }
        (r0.andThen fun nc fl => execChild cfg env f depth nc fl node ps.child ps.data).andThen fun nc fl =>
          R.okR (match node.endVal with | some e => if ps.noPrint then [] else [e] | none => []) nc fl
      | st => { st := st, log := pr.log, nc := pr.nc, fl := pr.fl }
    | .comment =>
      let np := isHiddenComment d.value
      (R.okR [if np then "" else d.value] nc fl).andThen fun nc fl =>
        (execKids cfg env f depth nc fl node.kids sc).andThen fun nc fl =>
          R.okR (match node.endVal with | some e => if np then [] else [e] | none => []) nc fl
    | .root =>
      (R.okR [""] nc fl).andThen fun nc fl =>
        (execKids cfg env f depth nc fl node.kids sc).andThen fun nc fl =>
          R.okR (match node.endVal with | some e => [e] | none => []) nc fl
    | _ =>
      (R.okR [d.value] nc fl).andThen fun nc fl =>
        (execKids cfg env f depth nc fl node.kids sc).andThen fun nc fl =>
          R.okR (match node.endVal with | some e => [e] | none => []) nc fl

/-- `opt.processChild` -/
def execChild (cfg : Cfg) (env : Env Sc) : Nat → Nat → NC → Fl → Node → ChildMode → Sc → R
  | 0, _, nc, fl, _, _, _ => R.noFuel nc fl
  | f+1, depth, nc, fl, node, mode, sc =>
    match mode with
    | .unset => execKids cfg env f depth nc fl node.kids sc
    | .nop => R.okR [] nc fl
    | .textLike a isText =>
      match env.evalStr a sc with
      | (.error c, lg) => R.fail c lg nc fl
      | (.ok v, lg) => { st := .ok, out := [if isText then escapeHtml v else v], log := lg, nc := nc, fl := fl }
    | .abf =>
      let (before, tagNode, after) := abfParts node.kids
      let run (n : Option Node) (nc : NC) (fl : Fl) : R :=
        match n with | some k => exec cfg env f depth nc fl k sc | none => R.okR [] nc fl
      (run before nc fl).andThen fun nc fl =>
        ((match tagNode with | some k => exec cfg env f depth nc fl k sc | none => R.okR [] nc fl)).andThen fun nc fl =>
          run after nc fl

def execKids (cfg : Cfg) (env : Env Sc) : Nat → Nat → NC → Fl → List Node → Sc → R
  | 0, _, nc, fl, _, _ => R.noFuel nc fl
  | _+1, _, nc, fl, [], _ => R.okR [] nc fl
  | f+1, depth, nc, fl, k :: ks, sc =>
    (exec cfg env f depth nc fl k sc).andThen fun nc fl => execKids cfg env f depth nc fl ks sc

/-- a fragment (insert / replace): fresh template object (fresh flags and conditions), nesting depth + 1,
    output into a buffer -/
def execFrag (cfg : Cfg) (env : Env Sc) : Nat → Nat → NC → Fl → Node → Sc → R
  | 0, _, nc, fl, _, _ => R.noFuel nc fl
  | f+1, depth, nc, fl, t, sc =>
    if depth + 1 > cfg.maxDepth then R.fail .tooDeep [] nc fl
    else
      let r := (exec cfg env f (depth + 1) emptyNc emptyFl t sc).buffered
      { r with nc := nc, fl := fl }

/-- the attribute loop of processTagStart -/
def procAttrs (cfg : Cfg) (env : Env Sc) : Nat → Nat → NC → Fl → Node → List CAttr → PS Sc → PR Sc
  | 0, _, nc, fl, _, _, ps => { st := .fuel, ps := ps, nc := nc, fl := fl }
  | _+1, _, nc, fl, _, [], ps => { st := .ok, ps := ps, nc := nc, fl := fl }
  | f+1, depth, nc, fl, node, a :: rest, ps =>
    let d := node.d
    let flags := fl d.id
    match classify cfg a with
    | .with_ =>
      if flags ≠ 0 then procAttrs cfg env f depth nc fl node rest ps
      else
        match env.withAssign a ps.data with
        | (.error c, lg) => { st := .err c, ps := ps, log := lg, nc := nc, fl := fl }
        | (.ok sc', lg) =>
          let r := procAttrs cfg env f depth nc fl node rest { ps with data := sc' }
          { r with log := lg ++ r.log }
    | .cond isIf =>
      if flags &&& 1 ≠ 0 then procAttrs cfg env f depth nc fl node rest ps
      else
        -- processIfElse, then the outer visit ends
        match a.value with
        | none => { st := .err .attrValueExpected, ps := ps, nc := nc, fl := fl }
        | some _ =>
          let fl1 := setFl fl d.id (flags ||| 1)
          let ps1 := { ps with child := .nop }
          let evalCond : PR Sc :=
            match env.evalStr a ps.data with
            | (.error c, lg) => { st := .err c, ps := ps1, log := lg, nc := nc, fl := fl1 }
            | (.ok v, lg) =>
              if v == "true" then
                let r := (exec cfg env f depth (setNc nc d.id true) fl1 node ps.data).buffered
                { st := r.st, ps := { ps1 with tokenBuf := ps1.tokenBuf ++ r.text }, log := lg ++ r.log, nc := r.nc, fl := r.fl }
              else { st := .ok, ps := ps1, log := lg, nc := setNc nc d.id false, fl := fl1 }
          let r : PR Sc :=
            if isIf then evalCond
            else
              match d.prevTag.bind nc with
              | none => { st := .err .unexpectedElse, ps := ps1, nc := nc, fl := fl1 }
              | some false => evalCond
              | some true => { st := .ok, ps := ps1, nc := setNc nc d.id true, fl := fl1 }
          -- defer clearCurrentAttr(node, currentIsCond)
          { r with fl := setFl r.fl d.id (r.fl d.id &&& 2) }
    | .range =>
      if flags &&& 2 ≠ 0 then procAttrs cfg env f depth nc fl node rest ps
      else
        match a.value with
        | none => { st := .err .attrValueExpected, ps := ps, nc := nc, fl := fl }
        | some _ =>
          let fl1 := setFl fl d.id (flags ||| 2)
          match env.rangeItems a ps.data with
          | (.error c, lg) => { st := .err c, ps := ps, log := lg, nc := nc, fl := setFl fl1 d.id (fl1 d.id &&& 1) }
          | (.ok items, lg) =>
            let r := (execItems cfg env f depth nc fl1 node items true).buffered
            { st := r.st, ps := { ps with tokenBuf := ps.tokenBuf ++ r.text }, log := lg ++ r.log, nc := r.nc,
              fl := setFl r.fl d.id (r.fl d.id &&& 1) }
    | k =>
      (bodyStep cfg env (fun t sc => execFrag cfg env f depth nc fl t sc) d a k ps nc fl).andThen fun ps nc fl =>
        procAttrs cfg env f depth nc fl node rest ps

/-- the loop of processRange: between consecutive items the following blank text node is printed -/
def execItems (cfg : Cfg) (env : Env Sc) : Nat → Nat → NC → Fl → Node → List Sc → Bool → R
  | 0, _, nc, fl, _, _, _ => R.noFuel nc fl
  | _+1, _, nc, fl, _, [], _ => R.okR [] nc fl
  | f+1, depth, nc, fl, node, sc :: rest, first =>
    let sep : List String := if first then [] else (match node.d.nextBlank with | some b => [b] | none => [])
    ((R.okR sep nc fl).andThen fun nc fl => exec cfg env f depth nc fl node sc).andThen fun nc fl =>
      execItems cfg env f depth nc fl node rest false
end

/-- `Execute`: fresh state, top-level writer (chunks are observable) -/
def execute (cfg : Cfg) (env : Env Sc) (fuel : Nat) (root : Node) (sc : Sc) : R :=
  exec cfg env fuel 0 emptyNc emptyFl root sc

/-! ## structural specification: with → condition → range → rest, each exactly once, no flags, no re-entry -/

def withAttr (cfg : Cfg) (attrs : List CAttr) : Option CAttr := attrs.find? fun a => classify cfg a == .with_
def condAttr (cfg : Cfg) (attrs : List CAttr) : Option (CAttr × Bool) :=
  attrs.findSome? fun a => match classify cfg a with | .cond isIf => some (a, isIf) | _ => none
def rangeAttr (cfg : Cfg) (attrs : List CAttr) : Option CAttr := attrs.find? fun a => classify cfg a == .range
def isCtl (cfg : Cfg) (a : CAttr) : Bool :=
  match classify cfg a with | .with_ | .cond _ | .range => true | _ => false

/-- result of the specification: no flags -/
structure Q where
  st : Status
  out : List String := []
  log : List String := []
  nc : NC

def Q.andThen (r : Q) (k : NC → Q) : Q :=
  match r.st with
  | .ok => let r2 := k r.nc; { st := r2.st, out := r.out ++ r2.out, log := r.log ++ r2.log, nc := r2.nc }
  | _ => r
def Q.okQ (out : List String) (nc : NC) : Q := { st := .ok, out := out, nc := nc }
def Q.buffered (r : Q) : Q :=
  match r.st with
  | .ok => { r with out := [String.join r.out] }
  | _ => { r with out := [] }
def Q.toR (q : Q) (fl : Fl) : R := { st := q.st, out := q.out, log := q.log, nc := q.nc, fl := fl }
def R.toQ (r : R) : Q := { st := r.st, out := r.out, log := r.log, nc := r.nc }

mutual
def refNode (cfg : Cfg) (env : Env Sc) : Nat → Nat → NC → Node → Sc → Q
  | 0, _, nc, _, _ => { st := .fuel, nc := nc }
  | f+1, depth, nc, node, sc =>
    let d := node.d
    match d.kind with
    | .tag =>
      -- 1. with
      let w : Except Cls Sc × List String := match withAttr cfg d.attrs with
        | some a => env.withAssign a sc
        | none => (.ok sc, [])
      match w with
      | (.error c, lg) => { st := .err c, log := lg, nc := nc }
      | (.ok sc1, lg) =>
        let r : Q :=
          -- 2. condition
          match condAttr cfg d.attrs with
          | none =>
            match rangeAttr cfg d.attrs with
            | none => refBody cfg env f depth nc node sc1          -- plain element: chunks visible
            | some ra => (refRange cfg env f depth nc node ra sc1)
          | some (ca, isIf) =>
            match ca.value with
            | none => { st := .err .attrValueExpected, nc := nc }
            | some _ =>
              let evalCond : Q :=
                match env.evalStr ca sc1 with
                | (.error c, lg) => { st := .err c, log := lg, nc := nc }
                | (.ok v, lg) =>
                  if v == "true" then
                    let r := (match rangeAttr cfg d.attrs with
                      | none => refBody cfg env f depth (setNc nc d.id true) node sc1
                      | some ra => refRange cfg env f depth (setNc nc d.id true) node ra sc1).buffered
                    { r with log := lg ++ r.log }
                  else { st := .ok, out := [""], log := lg, nc := setNc nc d.id false }
              if isIf then evalCond
              else
                match d.prevTag.bind nc with
                | none => { st := .err .unexpectedElse, nc := nc }
                | some false => evalCond
                | some true => { st := .ok, out := [""], nc := setNc nc d.id true }
        { r with log := lg ++ r.log }
    | .comment =>
      let np := isHiddenComment d.value
      (Q.okQ [if np then "" else d.value] nc).andThen fun nc =>
        (refKids cfg env f depth nc node.kids sc).andThen fun nc =>
          Q.okQ (match node.endVal with | some e => if np then [] else [e] | none => []) nc
    | .root =>
      (Q.okQ [""] nc).andThen fun nc =>
        (refKids cfg env f depth nc node.kids sc).andThen fun nc =>
          Q.okQ (match node.endVal with | some e => [e] | none => []) nc
    | _ =>
      (Q.okQ [d.value] nc).andThen fun nc =>
        (refKids cfg env f depth nc node.kids sc).andThen fun nc =>
          Q.okQ (match node.endVal with | some e => [e] | none => []) nc

/-- 3. range: one rendering of the rest per item; the whole loop is one chunk -/
def refRange (cfg : Cfg) (env : Env Sc) : Nat → Nat → NC → Node → CAttr → Sc → Q
  | 0, _, nc, _, _, _ => { st := .fuel, nc := nc }
  | f+1, depth, nc, node, ra, sc =>
    match ra.value with
    | none => { st := .err .attrValueExpected, nc := nc }
    | some _ =>
      match env.rangeItems ra sc with
      | (.error c, lg) => { st := .err c, log := lg, nc := nc }
      | (.ok items, lg) =>
        let r := (refItems cfg env f depth nc node items true).buffered
        { r with log := lg ++ r.log }

def refItems (cfg : Cfg) (env : Env Sc) : Nat → Nat → NC → Node → List Sc → Bool → Q
  | 0, _, nc, _, _, _ => { st := .fuel, nc := nc }
  | _+1, _, nc, _, [], _ => Q.okQ [] nc
  | f+1, depth, nc, node, sc :: rest, first =>
    let sep : List String := if first then [] else (match node.d.nextBlank with | some b => [b] | none => [])
    ((Q.okQ sep nc).andThen fun nc => refBody cfg env f depth nc node sc).andThen fun nc =>
      refItems cfg env f depth nc node rest false

/-- 4. the rest: remove modes, text/raw, define/replace/insert, dynamic and static attributes, children, end tag -/
def refBody (cfg : Cfg) (env : Env Sc) : Nat → Nat → NC → Node → Sc → Q
  | 0, _, nc, _, _ => { st := .fuel, nc := nc }
  | f+1, depth, nc, node, sc =>
    let d := node.d
    -- option state as on the pass in which both flags are set
    let (np, ch) := initOpt cfg d 3
    let ps0 : PS Sc := { data := sc, noPrint := np, child := ch, tagBuf := if np then "" else "<" ++ d.tagName }
    let pr := refAttrs cfg env f depth nc d d.attrs ps0
    match pr.st with
    | .ok =>
      let ps := finishTag pr.ps
      let r0 : Q := { st := .ok, out := [ps.tokenBuf], log := pr.log, nc := pr.nc }
      (r0.andThen fun nc => refChild cfg env f depth nc node ps.child ps.data).andThen fun nc =>
        Q.okQ (match node.endVal with | some e => if ps.noPrint then [] else [e] | none => []) nc
    | st => { st := st, log := pr.log, nc := pr.nc }

def refAttrs (cfg : Cfg) (env : Env Sc) : Nat → Nat → NC → NodeD → List CAttr → PS Sc → PR Sc
  | 0, _, nc, _, _, ps => { st := .fuel, ps := ps, nc := nc, fl := emptyFl }
  | _+1, _, nc, _, [], ps => { st := .ok, ps := ps, nc := nc, fl := emptyFl }
  | f+1, depth, nc, d, a :: rest, ps =>
    if isCtl cfg a then refAttrs cfg env f depth nc d rest ps
    else
      (bodyStep cfg env (fun t sc => (refFrag cfg env f depth nc t sc).toR emptyFl) d a (classify cfg a) ps nc emptyFl).andThen
        fun ps nc _ => refAttrs cfg env f depth nc d rest ps

def refFrag (cfg : Cfg) (env : Env Sc) : Nat → Nat → NC → Node → Sc → Q
  | 0, _, nc, _, _ => { st := .fuel, nc := nc }
  | f+1, depth, nc, t, sc =>
    if depth + 1 > cfg.maxDepth then { st := .err .tooDeep, nc := nc }
    else
      let r := (refNode cfg env f (depth + 1) emptyNc t sc).buffered
      { r with nc := nc }

def refChild (cfg : Cfg) (env : Env Sc) : Nat → Nat → NC → Node → ChildMode → Sc → Q
  | 0, _, nc, _, _, _ => { st := .fuel, nc := nc }
  | f+1, depth, nc, node, mode, sc =>
    match mode with
    | .unset => refKids cfg env f depth nc node.kids sc
    | .nop => Q.okQ [] nc
    | .textLike a isText =>
      match env.evalStr a sc with
      | (.error c, lg) => { st := .err c, log := lg, nc := nc }
      | (.ok v, lg) => { st := .ok, out := [if isText then escapeHtml v else v], log := lg, nc := nc }
    | .abf =>
      let (before, tagNode, after) := abfParts node.kids
      let run (n : Option Node) (nc : NC) : Q :=
        match n with | some k => refNode cfg env f depth nc k sc | none => Q.okQ [] nc
      (run before nc).andThen fun nc =>
        ((match tagNode with | some k => refNode cfg env f depth nc k sc | none => Q.okQ [] nc)).andThen fun nc =>
          run after nc

def refKids (cfg : Cfg) (env : Env Sc) : Nat → Nat → NC → List Node → Sc → Q
  | 0, _, nc, _, _ => { st := .fuel, nc := nc }
  | _+1, _, nc, [], _ => Q.okQ [] nc
  | f+1, depth, nc, k :: ks, sc =>
    (refNode cfg env f depth nc k sc).andThen fun nc => refKids cfg env f depth nc ks sc
end

def refExecute (cfg : Cfg) (env : Env Sc) (fuel : Nat) (root : Node) (sc : Sc) : Q :=
  refNode cfg env fuel 0 emptyNc root sc

end RN
