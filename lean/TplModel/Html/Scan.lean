namespace HS

structure Pos where
  line : Nat
  col : Nat
deriving Repr, DecidableEq, Inhabited

def Pos.advance (p : Pos) (c : Char) : Pos :=
  if c = '\n' then ⟨p.line + 1, 1⟩
  else if c = '\t' then ⟨p.line, p.col + 4⟩
  else ⟨p.line, p.col + 1⟩

def isSpace (c : Char) : Bool :=
  let n := c.toNat
  n == 0x20 || (0x09 ≤ n && n ≤ 0x0D) || n == 0x85 || n == 0xA0 || n == 0x1680 ||
  (0x2000 ≤ n && n ≤ 0x200A) || n == 0x2028 || n == 0x2029 || n == 0x202F || n == 0x205F || n == 0x3000

def lower (cs : List Char) : List Char := cs.map Char.toLower

structure Attr where
  name : List Char
  nameStart : Pos
  nameEnd : Pos
  value : Option (List Char)
  valueStart : Pos
  valueEnd : Pos
deriving Repr, Inhabited

structure Tag where
  name : List Char
  attrs : List Attr      -- in source order
deriving Repr, Inhabited

inductive Kind | tag | text | comment | cdata
deriving Repr, DecidableEq

structure Token where
  kind : Kind
  value : List Char
  start : Pos
  stop : Pos
  tag : Option Tag
deriving Repr

inductive TagSt | tagStart | tagName | cdata | comment | space | attrName | attrValue
deriving Repr, DecidableEq

structure TextL where      -- locals of readText
  buf : List Char          -- reversed
  start : Pos
  raw : Option (List Char) -- lowercased tag name when in a raw-text element
  stop : Pos               -- `end`
  tagBuf : List Char       -- reversed
  nameBuf : List Char      -- reversed
deriving Repr

structure TagL where       -- locals of readTag
  st : TagSt
  buf : List Char          -- reversed
  start : Pos
  attrs : List Attr        -- reversed
  tagName : List Char      -- reversed
  comment : List Char      -- reversed
  cdata : List Char        -- reversed
  attrName : List Char     -- reversed
  attrNameStart : Pos
  attrNameEnd : Pos
  attrValue : List Char    -- reversed
  attrValueStart : Pos
  attrValueEnd : Pos
deriving Repr

inductive Mode
  | init
  | text (l : TextL)
  | tag (l : TagL)
deriving Repr

structure S where
  mode : Mode
  pos : Pos
  toks : List Token        -- reversed
deriving Repr

inductive Err | eofInTag | comment | dupAttr | panic (site : String)
deriving Repr

structure Cfg where
  textTags : List (List Char)

def S.emit (s : S) (t : Token) : S := { s with toks := t :: s.toks }

def rawTagOf (cfg : Cfg) (toks : List Token) : Option (List Char) :=
  match toks with
  | [] => none
  | last :: _ =>
    match last.kind, last.tag with
    | .tag, some tg =>
      let n := lower tg.name
      if cfg.textTags.any (fun t => lower t == n) then some n else none
    | _, _ => none

def trimOneSpace (cs : List Char) : List Char :=   -- cs reversed; TrimSuffix(name, " ")
  match cs with
  | ' ' :: r => r
  | _ => cs

def addAttr (l : TagL) (a : Attr) : Except Err TagL :=
  if l.attrs.any (fun b => b.name == a.name) then .error .dupAttr
  else .ok { l with attrs := a :: l.attrs }

def newTagL (start : Pos) : TagL :=
  { st := .tagStart, buf := [], start := start, attrs := [], tagName := [], comment := [], cdata := [],
    attrName := [], attrNameStart := ⟨0,0⟩, attrNameEnd := ⟨0,0⟩, attrValue := [], attrValueStart := ⟨0,0⟩, attrValueEnd := ⟨0,0⟩ }

def finishTag (s : S) (l : TagL) (p' : Pos) : S :=
  ({ s with mode := .init, pos := p' }).emit
    { kind := .tag, value := l.buf.reverse, start := l.start, stop := p',
      tag := some { name := l.tagName.reverse, attrs := l.attrs.reverse } }

def isQuote (c : Char) : Bool := c = '"' || c = '\''

/-- one rune inside readTag; `p` position before the rune, `p'` after -/
def stepTag (s : S) (l0 : TagL) (c : Char) (p p' : Pos) : Except Err S :=
  let l := { l0 with buf := c :: l0.buf }
  let cont (l : TagL) : Except Err S := .ok { s with mode := .tag l, pos := p' }
  let endCheck (l : TagL) : Except Err S := if c = '>' then .ok (finishTag s l p') else cont l
  match l.st with
  | .tagStart => if c = '<' then endCheck { l with st := .tagName } else .error (.panic "want <")
  | .tagName =>
    if c = '>' then endCheck l
    else if isSpace c then endCheck { l with st := .space }
    else
      let tn := c :: l.tagName
      let l := { l with tagName := tn }
      let l := if tn.reverse = "!--".toList then { l with st := .comment } else l
      let l := if tn.reverse = "![CDATA[".toList then { l with st := .cdata } else l
      endCheck l
  | .comment =>
    let ct := c :: l.comment
    let text := ct.reverse
    let isEnd := "-->".toList.isSuffixOf text
    let text' := if isEnd then text.take (text.length - 3) else text
    if ">".toList.isPrefixOf text' || "->".toList.isPrefixOf text' then .error .comment
    else if isEnd then
      let contains (pat : List Char) : Bool := (List.range (text'.length + 1)).any fun k => pat.isPrefixOf (text'.drop k)
      if contains "<!--".toList || contains "-->".toList || contains "--!>".toList then .error .comment
      else if "<!-".toList.isSuffixOf text' then .error .comment
      else .ok (({ s with mode := .init, pos := p' }).emit
        { kind := .comment, value := "<!--".toList ++ text' ++ "-->".toList, start := l.start, stop := p', tag := none })
    else cont { l with comment := ct }
  | .cdata =>
    let cd := c :: l.cdata
    if "]]>".toList.isSuffixOf cd.reverse then
      .ok (({ s with mode := .init, pos := p' }).emit
        { kind := .cdata, value := "<![CDATA[".toList ++ cd.reverse, start := l.start, stop := p', tag := none })
    else cont { l with cdata := cd }      -- `continue`: a '>' inside CDATA does not end it
  | .space =>
    if c = '>' then endCheck l
    else if !isSpace c then
      -- UnRead + re-read in attrName state; buf already holds c exactly once
      stepAttrName s { l with st := .attrName, attrName := [], attrNameStart := p } c p p'
    else endCheck l
  | .attrName => stepAttrName s l c p p'
  | .attrValue =>
    if l.attrValue.isEmpty && c ≠ '>' then
      if isSpace c then cont { l with attrValueStart := p', attrValueEnd := p' }
      else cont { l with attrValue := [c], attrValueEnd := p' }
    else
      -- value already started, or `<p a=>`: empty value, firstCh = 0 is no quote, '>' finishes it
      let quoted := match l.attrValue.getLast? with | some ch => isQuote ch | none => false
      let firstCh := l.attrValue.getLast?.getD ' ' 
      let (l, finish) :=
        if quoted then
          if firstCh = c then ({ l with attrValue := c :: l.attrValue, attrValueEnd := p' }, true) else (l, false)
        else if isSpace c || c = '>' then (l, true) else (l, false)
      if finish then
        let a : Attr := { name := (trimOneSpace l.attrName).reverse, nameStart := l.attrNameStart, nameEnd := l.attrNameEnd,
                          value := some l.attrValue.reverse, valueStart := l.attrValueStart, valueEnd := l.attrValueEnd }
        match addAttr l a with
        | .error e => .error e
        | .ok l => endCheck { l with st := .space }
      else
        let l := { l with attrValue := c :: l.attrValue, attrValueEnd := p' }
        if quoted then cont l else endCheck l
where
  stepAttrName (s : S) (l : TagL) (c : Char) (p p' : Pos) : Except Err S :=
    let cont (l : TagL) : Except Err S := .ok { s with mode := .tag l, pos := p' }
    let endCheck (l : TagL) : Except Err S := if c = '>' then .ok (finishTag s l p') else cont l
    -- a run of blanks after the name is recorded as ONE blank (trimOneSpace removes it again)
    if isSpace c then endCheck (match l.attrName with | ' ' :: _ => l | _ => { l with attrName := ' ' :: l.attrName })
    else if c = '>' then
      let a : Attr := { name := (trimOneSpace l.attrName).reverse, nameStart := l.attrNameStart, nameEnd := l.attrNameEnd,
                        value := none, valueStart := ⟨0,0⟩, valueEnd := ⟨0,0⟩ }
      match addAttr l a with
      | .error e => .error e
      | .ok l => endCheck l
    else if c = '=' then endCheck { l with st := .attrValue, attrValue := [], attrValueStart := p', attrValueEnd := p' }
    else
      match l.attrName with
      | ' ' :: rest =>
        let a : Attr := { name := rest.reverse, nameStart := l.attrNameStart, nameEnd := l.attrNameEnd,
                          value := none, valueStart := ⟨0,0⟩, valueEnd := ⟨0,0⟩ }
        match addAttr l a with
        | .error e => .error e
        | .ok l => endCheck { l with attrName := [c], attrNameStart := p, attrNameEnd := p' }
      | _ => endCheck { l with attrName := c :: l.attrName, attrNameEnd := p' }

def stepText (s : S) (l : TextL) (c : Char) (p p' : Pos) : Except Err S :=
  match l.raw with
  | none =>
    if c = '<' then
      let s1 := ({ s with pos := p }).emit { kind := .text, value := l.buf.reverse, start := l.start, stop := p, tag := none }
      stepTag s1 (newTagL p) c p p'
    else .ok { s with mode := .text { l with buf := c :: l.buf }, pos := p' }
  | some tagName =>
    let closeTag := "</".toList ++ tagName ++ ">".toList
    let closing0 := !l.tagBuf.isEmpty
    let (l, closing) := if c = '<' then ({ l with tagBuf := [], nameBuf := [], stop := p }, true) else (l, closing0)
    if !closing then
      .ok { s with mode := .text { l with stop := p', buf := c :: l.buf }, pos := p' }
    else
      let l := { l with tagBuf := c :: l.tagBuf, nameBuf := if isSpace c then l.nameBuf else c :: l.nameBuf }
      let name := lower l.nameBuf.reverse
      if name.isPrefixOf closeTag then
        if c = '>' then
          -- textBuf.Truncate(len + 1 - tagBuf.len), in bytes
          let bytes (cs : List Char) : Nat := (cs.map Char.utf8Size).sum
          let keep := bytes l.buf + 1
          if keep < bytes l.tagBuf then .error (.panic "truncate")
          else
            let text := l.buf.drop (l.tagBuf.length - 1)
            let s0 : S := { s with mode := .init, pos := p' }
            -- empty content (`<script></script>`): only the closing tag is emitted
            let s1 := if text.isEmpty then s0 else s0.emit
              { kind := .text, value := text.reverse, start := l.start, stop := l.stop, tag := none }
            .ok (s1.emit { kind := .tag, value := l.tagBuf.reverse, start := l.stop, stop := p',
                           tag := some { name := (l.nameBuf.reverse.drop 1).dropLast, attrs := [] } })   -- nameBuf = "</Name>" without blanks, as written
        else .ok { s with mode := .text { l with buf := c :: l.buf }, pos := p' }
      else .ok { s with mode := .text { l with tagBuf := [], nameBuf := [], buf := c :: l.buf }, pos := p' }

def step (cfg : Cfg) (s : S) (c : Char) : Except Err S :=
  let p := s.pos
  let p' := p.advance c
  match s.mode with
  | .init =>
    -- initState: inside a raw-text element everything (also a leading '<') is read by readText
    let raw := rawTagOf cfg s.toks
    if c = '<' && raw.isNone then stepTag s (newTagL p) c p p'
    else stepText s { buf := [], start := p, raw := raw, stop := ⟨0,0⟩, tagBuf := [], nameBuf := [] } c p p'
  | .text l => stepText s l c p p'
  | .tag l => stepTag s l c p p'

def finish (s : S) : Except Err (List Token) :=
  match s.mode with
  | .init => .ok s.toks.reverse
  | .text l => .ok ((s.emit { kind := .text, value := l.buf.reverse, start := l.start, stop := s.pos, tag := none }).toks.reverse)
  | .tag _ => .error .eofInTag

def scan (cfg : Cfg) (cs : List Char) : Except Err (List Token) := do
  let s ← cs.foldlM (step cfg) { mode := .init, pos := ⟨1,1⟩, toks := [] }
  finish s

end HS
