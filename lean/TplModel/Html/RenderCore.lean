namespace R

abbrev NodeId := Nat
abbrev Val := Nat
abbrev Scope := List (String × Val)

inductive CondKind | if_ | elif
deriving DecidableEq, Repr

structure Info where
  id    : NodeId
  withB : Option (String × Nat)
  cond  : Option (CondKind × Nat)
  range : Option (String × Nat)
deriving Repr

inductive Node
  | text (s : String)
  | elem (i : Info) (kids : List Node)
deriving Repr

inductive Res (α : Type)
  | ok (a : α) | err (c : Nat) | fuel
deriving Repr

structure Env where
  evalV : Nat → Scope → Res Val
  evalB : Nat → Scope → Res Bool
  evalL : Nat → Scope → Res (List Val)

/-- flags: per template object, keyed by node -/
structure Fl where
  cond  : NodeId → Bool
  range : NodeId → Bool

def Fl.setCond (s : Fl) (i : NodeId) (b : Bool) : Fl := { s with cond := fun j => if j = i then b else s.cond j }
def Fl.setRange (s : Fl) (i : NodeId) (b : Bool) : Fl := { s with range := fun j => if j = i then b else s.range j }

abbrev NC := NodeId → Option Bool
def setNc (nc : NC) (i : NodeId) (b : Bool) : NC := fun j => if j = i then some b else nc j

def applyWith (env : Env) (w : Option (String × Nat)) (sc : Scope) : Res Scope :=
  match w with
  | some (x, c) => match env.evalV c sc with
    | .ok v => .ok ((x, v) :: sc) | .err e => .err e | .fuel => .fuel
  | none => .ok sc

def wrapBody (i : Info) : Res (String × Fl × NC) → Res (String × Fl × NC)
  | .ok (o, fl', nc') => .ok ("<" ++ toString i.id ++ ">" ++ o ++ "</>", fl', nc')
  | .err c => .err c
  | .fuel => .fuel
def unsetRange (i : Info) : Res (String × Fl × NC) → Res (String × Fl × NC)
  | .ok (o, fl', nc') => .ok (o, fl'.setRange i.id false, nc')
  | .err c => .err c
  | .fuel => .fuel
def unsetCond (i : Info) : Res (String × Fl × NC) → Res (String × Fl × NC)
  | .ok (o, fl', nc') => .ok (o, fl'.setCond i.id false, nc')
  | .err c => .err c
  | .fuel => .fuel

def nextPrev : Node → Option NodeId → Option NodeId
  | .elem i _, _ => some i.id
  | _, prev => prev

abbrev R3 := Res (String × Fl × NC)

def withPhase (env : Env) (fl : Fl) (i : Info) (sc : Scope) : Res Scope :=
  if fl.cond i.id || fl.range i.id then .ok sc else applyWith env i.withB sc

def rangePhase (env : Env) (items : Fl → NC → String → Scope → List Val → R3) (kidsF : Fl → NC → Scope → R3)
    (fl : Fl) (nc : NC) (i : Info) (sc : Scope) : R3 :=
  match i.range, fl.range i.id with
  | some (x, c), false =>
    match env.evalL c sc with
    | .err e => .err e
    | .fuel => .fuel
    | .ok xs => unsetRange i (items (fl.setRange i.id true) nc x sc xs)
  | _, _ => wrapBody i (kidsF fl nc sc)

def evalCond (env : Env) (reexec : Fl → NC → Scope → R3) (fl1 : Fl) (nc : NC) (i : Info) (c : Nat) (sc : Scope) : R3 :=
  match env.evalB c sc with
  | .err e => .err e
  | .fuel => .fuel
  | .ok b => if b then reexec fl1 (setNc nc i.id true) sc else .ok ("", fl1, setNc nc i.id false)

def condPhase (env : Env) (reexec : Fl → NC → Scope → R3) (rest : Fl → NC → Scope → R3)
    (fl : Fl) (nc : NC) (prev : Option NodeId) (i : Info) (sc : Scope) : R3 :=
  match i.cond, fl.cond i.id with
  | some (k, c), false =>
    let fl1 := fl.setCond i.id true
    unsetCond i (match k with
      | .if_ => evalCond env reexec fl1 nc i c sc
      | .elif =>
        match prev.bind nc with
        | none => .err 1
        | some true => .ok ("", fl1, setNc nc i.id true)
        | some false => evalCond env reexec fl1 nc i c sc)
  | _, _ => rest fl nc sc

mutual
def exec (env : Env) : Nat → Fl → NC → Option NodeId → Node → Scope → R3
  | 0, _, _, _, _, _ => .fuel
  | _+1, fl, nc, _, .text s, _ => .ok (s, fl, nc)
  | f+1, fl, nc, prev, .elem i kids, sc =>
    match withPhase env fl i sc with
    | .err c => .err c
    | .fuel => .fuel
    | .ok sc1 =>
      condPhase env (fun fl nc sc => exec env f fl nc prev (.elem i kids) sc)
        (fun fl nc sc => rangePhase env
          (fun fl nc x sc xs => execItems env f fl nc prev (.elem i kids) x sc xs)
          (fun fl nc sc => execKids env f fl nc none kids sc) fl nc i sc)
        fl nc prev i sc1
def execItems (env : Env) : Nat → Fl → NC → Option NodeId → Node → String → Scope → List Val → R3
  | 0, _, _, _, _, _, _, _ => .fuel
  | _+1, fl, nc, _, _, _, _, [] => .ok ("", fl, nc)
  | f+1, fl, nc, prev, n, x, sc, v :: vs =>
    match exec env f fl nc prev n ((x, v) :: sc) with
    | .ok (o1, fl1, nc1) =>
      match execItems env f fl1 nc1 prev n x sc vs with
      | .ok (o2, fl2, nc2) => .ok (o1 ++ o2, fl2, nc2)
      | .err c => .err c
      | .fuel => .fuel
    | .err c => .err c
    | .fuel => .fuel
def execKids (env : Env) : Nat → Fl → NC → Option NodeId → List Node → Scope → R3
  | 0, _, _, _, _, _ => .fuel
  | _+1, fl, nc, _, [], _ => .ok ("", fl, nc)
  | f+1, fl, nc, prev, k :: ks, sc =>
    match exec env f fl nc prev k sc with
    | .ok (o1, fl1, nc1) =>
      match execKids env f fl1 nc1 (nextPrev k prev) ks sc with
      | .ok (o2, fl2, nc2) => .ok (o1 ++ o2, fl2, nc2)
      | .err c => .err c
      | .fuel => .fuel
    | .err c => .err c
    | .fuel => .fuel
end

/-! reference renderer: no flags, no re-execution of the node -/
def refEvalCond (env : Env) (rangeF : NC → Scope → Res (String × NC)) (nc : NC) (i : Info) (c : Nat) (sc : Scope) : Res (String × NC) :=
  match env.evalB c sc with
  | .err e => .err e
  | .fuel => .fuel
  | .ok b => if b then rangeF (setNc nc i.id true) sc else .ok ("", setNc nc i.id false)

def refCondPhase (env : Env) (rangeF : NC → Scope → Res (String × NC)) (nc : NC) (prev : Option NodeId) (i : Info) (sc : Scope) :
    Res (String × NC) :=
  match i.cond with
  | none => rangeF nc sc
  | some (k, c) =>
    match k with
    | .if_ => refEvalCond env rangeF nc i c sc
    | .elif =>
      match prev.bind nc with
      | none => .err 1
      | some true => .ok ("", setNc nc i.id true)
      | some false => refEvalCond env rangeF nc i c sc

mutual
def refNode (env : Env) : Nat → NC → Option NodeId → Node → Scope → Res (String × NC)
  | 0, _, _, _, _ => .fuel
  | _+1, nc, _, .text s, _ => .ok (s, nc)
  | f+1, nc, prev, .elem i kids, sc =>
    match applyWith env i.withB sc with
    | .err c => .err c
    | .fuel => .fuel
    | .ok sc1 => refCondPhase env (fun nc sc => refRange env f nc i kids sc) nc prev i sc1
def refRange (env : Env) : Nat → NC → Info → List Node → Scope → Res (String × NC)
  | 0, _, _, _, _ => .fuel
  | f+1, nc, i, kids, sc =>
    match i.range with
    | none => refBody env f nc i kids sc
    | some (x, c) =>
      match env.evalL c sc with
      | .err c => .err c
      | .fuel => .fuel
      | .ok xs => refItems env f nc i kids x sc xs
def refItems (env : Env) : Nat → NC → Info → List Node → String → Scope → List Val → Res (String × NC)
  | 0, _, _, _, _, _, _ => .fuel
  | _+1, nc, _, _, _, _, [] => .ok ("", nc)
  | f+1, nc, i, kids, x, sc, v :: vs =>
    match refBody env f nc i kids ((x, v) :: sc) with
    | .ok (o1, nc1) =>
      match refItems env f nc1 i kids x sc vs with
      | .ok (o2, nc2) => .ok (o1 ++ o2, nc2)
      | .err c => .err c
      | .fuel => .fuel
    | .err c => .err c
    | .fuel => .fuel
def refBody (env : Env) : Nat → NC → Info → List Node → Scope → Res (String × NC)
  | 0, _, _, _, _ => .fuel
  | f+1, nc, i, kids, sc =>
    match refKids env f nc none kids sc with
    | .ok (o, nc') => .ok ("<" ++ toString i.id ++ ">" ++ o ++ "</>", nc')
    | .err c => .err c
    | .fuel => .fuel
def refKids (env : Env) : Nat → NC → Option NodeId → List Node → Scope → Res (String × NC)
  | 0, _, _, _, _ => .fuel
  | _+1, nc, _, [], _ => .ok ("", nc)
  | f+1, nc, prev, k :: ks, sc =>
    match refNode env f nc prev k sc with
    | .ok (o1, nc1) =>
      match refKids env f nc1 (nextPrev k prev) ks sc with
      | .ok (o2, nc2) => .ok (o1 ++ o2, nc2)
      | .err c => .err c
      | .fuel => .fuel
    | .err c => .err c
    | .fuel => .fuel
end

end R
