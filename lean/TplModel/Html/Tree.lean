namespace TB

/-- what ParseTokens looks at in a token -/
inductive TokClass
  | leaf        -- text / comment / cdata, void element, self-closing tag
  | open_       -- start tag
  | close       -- </name>
  | bad         -- TokenKindError or tag == nil
deriving DecidableEq, Repr

structure Cfg (Tok : Type) where
  classify : Tok → TokClass      -- depends on the configured void-element list

inductive Node (Tok : Type)
  | leaf (t : Tok)
  | elem (t : Tok) (kids : List (Node Tok)) (endTok : Option Tok)

structure Doc (Tok : Type) where
  kids : List (Node Tok)
  endTok : Option Tok

structure Frame (Tok : Type) where
  tok : Tok
  before : List (Node Tok)       -- reversed: earlier children of the parent

/-- zipper for the Go code's `node` pointer: `stack` = open ancestors (innermost first),
    `cur` = reversed children of the node `node` points to, `dead` = `node == nil` after popping the root -/
structure Z (Tok : Type) where
  stack : List (Frame Tok)
  cur : List (Node Tok)
  rootEnd : Option Tok
  dead : Bool

inductive Res (α : Type) | ok (a : α) | err | panic
deriving Repr

def stepTok {Tok} (cfg : Cfg Tok) (z : Z Tok) (t : Tok) : Res (Z Tok) :=
  match cfg.classify t with
  | .bad => .err
  | .leaf => if z.dead then .panic else .ok { z with cur := .leaf t :: z.cur }
  | .open_ => if z.dead then .panic else .ok { z with stack := ⟨t, z.cur⟩ :: z.stack, cur := [] }
  | .close =>
    if z.dead then .panic
    else match z.stack with
      | fr :: rest => .ok { z with stack := rest, cur := .elem fr.tok z.cur.reverse (some t) :: fr.before }
      | [] => .ok { z with rootEnd := some t, dead := true }     -- node = node.Parent = nil

def closeAll {Tok} : List (Frame Tok) → List (Node Tok) → List (Node Tok)
  | [], cur => cur
  | fr :: rest, cur => closeAll rest (.elem fr.tok cur.reverse none :: fr.before)

def build {Tok} (cfg : Cfg Tok) (toks : List Tok) : Res (Doc Tok) :=
  let rec go (z : Z Tok) : List Tok → Res (Z Tok)
    | [] => .ok z
    | t :: ts => match stepTok cfg z t with
      | .ok z' => go z' ts
      | .err => .err
      | .panic => .panic
  match go ⟨[], [], none, false⟩ toks with
  | .ok z => .ok ⟨(closeAll z.stack z.cur).reverse, z.rootEnd⟩
  | .err => .err
  | .panic => .panic

mutual
def flat {Tok} : Node Tok → List Tok
  | .leaf t => [t]
  | .elem t kids e => t :: (flatL kids ++ e.toList)
def flatL {Tok} : List (Node Tok) → List Tok
  | [] => []
  | n :: ns => flat n ++ flatL ns
end

def Doc.flat {Tok} (d : Doc Tok) : List Tok := flatL d.kids ++ d.endTok.toList

end TB

namespace TB
variable {Tok : Type}

@[simp] theorem flatL_append (a b : List (Node Tok)) : flatL (a ++ b) = flatL a ++ flatL b := by
  induction a with
  | nil => simp [flatL]
  | cons n ns ih => simp [flatL, ih]

@[simp] theorem flatL_nil : flatL ([] : List (Node Tok)) = [] := by simp [flatL]

@[simp] theorem flatL_single (n : Node Tok) : flatL [n] = flat n := by simp [flatL]

def flatStack : List (Frame Tok) → List Tok
  | [] => []
  | fr :: rest => flatStack rest ++ flatL fr.before.reverse ++ [fr.tok]

def flatZ (z : Z Tok) : List Tok := flatStack z.stack ++ flatL z.cur.reverse ++ z.rootEnd.toList

def ZInv (z : Z Tok) : Prop := if z.dead then z.stack = [] else z.rootEnd = none

theorem step_flat (cfg : Cfg Tok) (z z' : Z Tok) (t : Tok) (hi : ZInv z) (h : stepTok cfg z t = .ok z') :
    flatZ z' = flatZ z ++ [t] ∧ ZInv z' := by
  unfold stepTok at h
  cases hc : cfg.classify t <;> simp only [hc] at h
  case bad => cases h
  all_goals (
    cases hd : z.dead <;> simp only [hd] at h <;> try (cases h))
  case leaf => simp_all [flatZ, ZInv, flat]
  case open_ => simp_all [flatZ, ZInv, flatStack]
  case close =>
    cases hs : z.stack with
    | nil =>
      simp only [hs] at h; cases h
      simp_all [flatZ, ZInv, flatStack]
    | cons fr rest =>
      simp only [hs] at h; cases h
      simp_all [flatZ, ZInv, flatStack, flat]

theorem go_flat (cfg : Cfg Tok) (toks : List Tok) (z z' : Z Tok) (hi : ZInv z) (h : build.go cfg z toks = .ok z') :
    flatZ z' = flatZ z ++ toks ∧ ZInv z' := by
  induction toks generalizing z with
  | nil => simp only [build.go] at h; cases h; simp [hi]
  | cons t ts ih =>
    simp only [build.go] at h
    cases hs : stepTok cfg z t with
    | ok z1 =>
      simp only [hs] at h
      obtain ⟨h1, hi1⟩ := step_flat cfg z z1 t hi hs
      obtain ⟨h2, hi2⟩ := ih z1 hi1 h
      exact ⟨by simp [h2, h1], hi2⟩
    | err => simp [hs] at h
    | panic => simp [hs] at h

theorem closeAll_flat (stack : List (Frame Tok)) (cur : List (Node Tok)) :
    flatL (closeAll stack cur).reverse = flatStack stack ++ flatL cur.reverse := by
  induction stack generalizing cur with
  | nil => simp [closeAll, flatStack]
  | cons fr rest ih => simp [closeAll, flatStack, ih, flat]

/-- C01, second clause: tree building drops and reorders nothing — the pre-order walk of the tree
    (start token, children, End token) is the token list, for every token list and every void list. -/
theorem tree_preorder (cfg : Cfg Tok) (toks : List Tok) (d : Doc Tok) (h : build cfg toks = .ok d) :
    d.flat = toks := by
  unfold build at h
  cases hg : build.go cfg ⟨[], [], none, false⟩ toks with
  | ok z =>
    simp only [hg] at h; cases h
    obtain ⟨hf, _⟩ := go_flat cfg toks _ z (by simp [ZInv]) hg
    simp only [Doc.flat, closeAll_flat]
    simpa [flatZ, flatStack] using hf
  | err => simp [hg] at h
  | panic => simp [hg] at h

/-- C08 on the pinned tree: any token after a close tag that has no opener panics (nil dereference). -/
example (cfg : Cfg Nat) (h0 : cfg.classify 0 = .close) (h1 : cfg.classify 1 = .leaf) :
    build cfg [0, 1] = .panic := by
  simp [build, build.go, stepTok, h0, h1]

end TB
