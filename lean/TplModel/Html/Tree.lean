/-
M4 — model of the FIXED `(*Parser).ParseTokens` (/repo/html/parser.go).

The Go code walks the token slice once with a pointer `node` into the tree under construction:
push on a start tag, pop on an end tag, append a leaf for text / comment / CDATA / void element /
self-closing tag.  Since the fix, an end tag met while `node` is the root (`node.Parent == nil`) is
appended as a leaf child of the root instead of popping to a nil parent, so `node` is never nil.

The pointer is modelled by a zipper: `stack` = the open ancestors of `node` (innermost first, each
with the children that precede it in its parent, reversed), `cur` = the children of `node`, reversed.
`node.Parent == nil`  ⇔  `stack = []`.

The token classifier is abstract (`Cfg`): every theorem in Proofs/TreeProofs.lean holds for every
choice of the predicates, in particular for every configured void-element list.

Core-only, total, structurally recursive on the token list, executable.
-/
namespace TB

/-- `token.Kind`.  `error` stands for `TokenKindError` and for every other integer value: the
    `default:` branch of the outer switch. -/
inductive Kind
  | tag | text | comment | cdata | error
deriving DecidableEq, Repr

/-- Everything ParseTokens reads from a `*Token`, as abstract predicates. -/
structure Cfg (Tok : Type) where
  /-- the `*Token` pointer itself is nil (`token.Kind` then dereferences nil; the scanner never emits one) -/
  nilPtr : Tok → Bool
  kind : Tok → Kind
  /-- `token.Tag == nil` (only looked at when `kind = tag`) -/
  tagNil : Tok → Bool
  /-- `p.isVoidElement(tag.Name)` — depends on the configured void-element list -/
  isVoid : Tok → Bool
  /-- `tag.IsClose()`: `</name>` or self-closing -/
  isClose : Tok → Bool
  /-- `tag.IsSelfClose()`: `<name/>`, `<name />`, `<name k=v/>` -/
  isSelfClose : Tok → Bool

/-- which branch of ParseTokens a token takes -/
inductive TokClass
  | leaf        -- text / comment / cdata, void element, self-closing tag: append a leaf
  | open_       -- start tag: append a child and descend into it
  | close       -- `</name>`: set End and pop — or, at the root, append a leaf
  | bad         -- `tag == nil` or the `default:` branch: `return nil, err`
  | nilPtr      -- nil `*Token`: nil dereference
deriving DecidableEq, Repr

/-- the `switch { case tag.IsClose() || isVoid: if tag.IsSelfClose() || isVoid … }` of a tag token -/
def Cfg.classifyTag {Tok} (cfg : Cfg Tok) (t : Tok) : TokClass :=
  if cfg.tagNil t then .bad
  else if cfg.isClose t || cfg.isVoid t then
    if cfg.isSelfClose t || cfg.isVoid t then .leaf else .close
  else .open_

def Cfg.classify {Tok} (cfg : Cfg Tok) (t : Tok) : TokClass :=
  if cfg.nilPtr t then .nilPtr
  else match cfg.kind t with
    | .tag => cfg.classifyTag t
    | .text => .leaf
    | .comment => .leaf
    | .cdata => .leaf
    | .error => .bad

/-- Go `Node` without the `Parent` back pointer: `Token`, `Children`, `End`.
    A leaf is a node with no children and no End (Go does not distinguish a leaf from an element
    that was opened, got no children and was never closed, and neither does the model). -/
inductive Node (Tok : Type)
  | mk (tok : Tok) (kids : List (Node Tok)) (endTok : Option Tok)
deriving Repr

def Node.leaf {Tok} (t : Tok) : Node Tok := .mk t [] none

/-- The root `doc := &Node{}`: `Token = nil`, and in the fixed code `End` is never assigned, so the
    children are all there is. -/
structure Doc (Tok : Type) where
  kids : List (Node Tok)
deriving Repr

structure Frame (Tok : Type) where
  tok : Tok
  before : List (Node Tok)       -- reversed: earlier children of the parent

structure Z (Tok : Type) where
  stack : List (Frame Tok)
  cur : List (Node Tok)          -- reversed

inductive Res (α : Type)
  | ok (a : α)
  | err        -- `return nil, errors.Errorf(…)`
  | panic      -- nil dereference
deriving Repr

/-- one iteration of the `for _, token := range tokens` loop -/
def stepTok {Tok} (cfg : Cfg Tok) (z : Z Tok) (t : Tok) : Res (Z Tok) :=
  match cfg.classify t with
  | .nilPtr => .panic
  | .bad => .err
  | .leaf => .ok ⟨z.stack, .leaf t :: z.cur⟩
  | .open_ => .ok ⟨⟨t, z.cur⟩ :: z.stack, []⟩
  | .close =>
    match z.stack with
    | [] => .ok ⟨[], .leaf t :: z.cur⟩                                    -- node.Parent == nil: keep as a leaf
    | fr :: rest => .ok ⟨rest, .mk fr.tok z.cur.reverse (some t) :: fr.before⟩   -- node.End = token; node = node.Parent

/-- the loop -/
def run {Tok} (cfg : Cfg Tok) (z : Z Tok) : List Tok → Res (Z Tok)
  | [] => .ok z
  | t :: ts =>
    match stepTok cfg z t with
    | .ok z' => run cfg z' ts
    | .err => .err
    | .panic => .panic

/-- read the tree off the zipper: elements still open at the end of input keep `End = nil` -/
def closeAll {Tok} : List (Frame Tok) → List (Node Tok) → List (Node Tok)
  | [], cur => cur
  | fr :: rest, cur => closeAll rest (.mk fr.tok cur.reverse none :: fr.before)

def Z.init {Tok} : Z Tok := ⟨[], []⟩

def Z.doc {Tok} (z : Z Tok) : Doc Tok := ⟨(closeAll z.stack z.cur).reverse⟩

def build {Tok} (cfg : Cfg Tok) (toks : List Tok) : Res (Doc Tok) :=
  match run cfg .init toks with
  | .ok z => .ok z.doc
  | .err => .err
  | .panic => .panic

/-! pre-order walk: node token, children, then the End token if there is one -/
mutual
def flat {Tok} : Node Tok → List Tok
  | .mk t kids e => t :: (flatL kids ++ e.toList)
def flatL {Tok} : List (Node Tok) → List Tok
  | [] => []
  | n :: ns => flat n ++ flatL ns
end

def Doc.flat {Tok} (d : Doc Tok) : List Tok := flatL d.kids

/-- nesting depth of `node` after a token (saturating at the root, like the fixed code) -/
def depthStep {Tok} (cfg : Cfg Tok) (d : Nat) (t : Tok) : Nat :=
  match cfg.classify t with
  | .open_ => d + 1
  | .close => d - 1
  | _ => d

/-- nesting depth of `node` after a token list, starting at the root -/
def depth {Tok} (cfg : Cfg Tok) (toks : List Tok) : Nat := toks.foldl (depthStep cfg) 0

/-- the tokens on which the real code neither errors nor panics -/
def Cfg.Good {Tok} (cfg : Cfg Tok) (t : Tok) : Prop :=
  cfg.nilPtr t = false ∧ cfg.kind t ≠ .error ∧ (cfg.kind t = .tag → cfg.tagNil t = false)

/-- the tokens on which the real code returns an error: kind Error (or unknown), or a tag token with `Tag == nil` -/
def Cfg.ErrTok {Tok} (cfg : Cfg Tok) (t : Tok) : Prop :=
  cfg.nilPtr t = false ∧ (cfg.kind t = .error ∨ (cfg.kind t = .tag ∧ cfg.tagNil t = true))

instance {Tok} (cfg : Cfg Tok) (t : Tok) : Decidable (cfg.Good t) := by unfold Cfg.Good; infer_instance
instance {Tok} (cfg : Cfg Tok) (t : Tok) : Decidable (cfg.ErrTok t) := by unfold Cfg.ErrTok; infer_instance

/-! ## concrete classifier for examples and for the driver's self-test -/

/-- a toy token: enough structure to exercise every branch -/
inductive DTok
  | op (name : String)        -- `<name>`
  | cl (name : String)        -- `</name>`
  | sc (name : String)        -- `<name/>`
  | txt (s : String)
  | cmt (s : String)
  | cdata (s : String)
  | errTok                    -- kind Error
  | nilTag                    -- kind Tag, Tag == nil
deriving DecidableEq, Repr

def demoCfg (voids : List String) : Cfg DTok where
  nilPtr _ := false
  kind
    | .op _ | .cl _ | .sc _ | .nilTag => .tag
    | .txt _ => .text
    | .cmt _ => .comment
    | .cdata _ => .cdata
    | .errTok => .error
  tagNil | .nilTag => true | _ => false
  isVoid | .op n | .cl n | .sc n => voids.contains n | _ => false
  isClose | .cl _ | .sc _ => true | _ => false
  isSelfClose | .sc _ => true | _ => false

def demo : Cfg DTok := demoCfg ["br", "meta"]

/-- flat of the built tree, or `none` on err/panic -/
def buildFlat {Tok} (cfg : Cfg Tok) (toks : List Tok) : Option (List Tok) :=
  match build cfg toks with
  | .ok d => some d.flat
  | _ => none

open DTok in
/-- `</p>x` — the input that crashed the unfixed code: the stray close tag is a leaf of the root -/
example : build demo [cl "p", txt "x"] = .ok ⟨[.leaf (cl "p"), .leaf (txt "x")]⟩ := rfl
open DTok in
example : buildFlat demo [cl "p", txt "x"] = some [cl "p", txt "x"] := by decide

open DTok in
/-- `<a><b></a>` — `</a>` closes `<b>` (no name matching in ParseTokens), `<a>` stays open -/
example : build demo [op "a", op "b", cl "a"] =
    .ok ⟨[.mk (op "a") [.mk (op "b") [] (some (cl "a"))] none]⟩ := rfl
open DTok in
example : buildFlat demo [op "a", op "b", cl "a"] = some [op "a", op "b", cl "a"] := by decide

open DTok in
/-- void and self-closing tags are leaves; a closing tag of a void element (`</br>`) is a leaf too -/
example : build demo [op "p", op "br", sc "img", txt "t", cl "br", cl "p", cl "p", cmt "c"] =
    .ok ⟨[.mk (op "p") [.leaf (op "br"), .leaf (sc "img"), .leaf (txt "t"), .leaf (cl "br")] (some (cl "p")),
          .leaf (cl "p"), .leaf (cmt "c")]⟩ := rfl
open DTok in
example : buildFlat demo [op "p", op "br", sc "img", txt "t", cl "br", cl "p", cl "p", cmt "c"] =
    some [op "p", op "br", sc "img", txt "t", cl "br", cl "p", cl "p", cmt "c"] := by decide

open DTok in
/-- the two error tokens -/
example : buildFlat demo [op "a", errTok, txt "x"] = none := by decide
open DTok in
example : buildFlat demo [op "a", nilTag] = none := by decide

end TB

