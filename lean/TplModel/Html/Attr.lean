import TplModel.Generated.Facts
import TplModel.Html.Scan
/-! # M8 — `extractRange` (html/template.go) and `(*Tag).SortedAttr` (html/tag.go)

Core-only, executable.  Strings are modelled as `List Char` (range header) resp. `String` (attribute names);
Go's byte-wise `strings.Index(s, ":")`, `strings.HasPrefix`, `strings.TrimPrefix` agree with the code-point-wise
versions used here on valid UTF-8 (`:` and `,` are ASCII; UTF-8 is prefix-synchronising).

The weight table is NOT written down here: every definition reads `Facts.attrWeights`, which is re-extracted
from the map literal in `html/tag.go` on every run. -/
namespace AT

/-! ## `strings.TrimSpace`, `extractRange` -/

/-- drop leading `unicode.IsSpace` runes -/
def trimLeft (cs : List Char) : List Char := cs.dropWhile HS.isSpace

/-- drop trailing `unicode.IsSpace` runes -/
def trimRight (cs : List Char) : List Char := (trimLeft cs.reverse).reverse

/-- `strings.TrimSpace` -/
def trimSpace (cs : List Char) : List Char := trimRight (trimLeft cs)

/-- `i := strings.Index(s, c)`; `none` for `i < 0`, otherwise `(s[:i], s[i+1:])` -/
def splitFirst (c : Char) : List Char → Option (List Char × List Char)
  | [] => none
  | x :: xs =>
    if x = c then some ([], xs)
    else match splitFirst c xs with
      | none => none
      | some (a, b) => some (x :: a, b)

/-- the part of `extractRange` after the `:` was found: `a = s[:i]` -/
def splitNames (a : List Char) : List Char × List Char :=
  match splitFirst ',' a with
  | none => (trimSpace a, [])                       -- :range="key : items"
  | some (i, j) => (trimSpace i, trimSpace j)       -- :range="idxName, itemName : items"

/-- `extractRange(s) (idxName, itemName, objName)` (the `err` result is always nil in the Go code) -/
def extractRange (s : List Char) : List Char × List Char × List Char :=
  let s := trimSpace s
  match splitFirst ':' s with
  | none => ([], [], s)                             -- :range="items"
  | some (a, b) => ((splitNames a).1, (splitNames a).2, trimSpace b)

/-! ## `(*Tag).SortedAttr` -/

/-- `strings.HasPrefix(name, pfx)` -/
def hasPrefix (pfx name : String) : Bool := pfx.toList.isPrefixOf name.toList

/-- `strings.TrimPrefix(name, pfx)` for a name that has the prefix -/
def strip (pfx name : String) : String := String.ofList (name.toList.drop pfx.toList.length)

/-- Go's `weight[k]` on the map literal: missing keys give the zero value -/
def wlookup (k : String) : Int := (Facts.attrWeights.lookup k).getD 0

/-- the keys of the weight map -/
def weightKeys : List String := Facts.attrWeights.map (·.1)

/-- the sort key intended by `SortedAttr`: `(0, weight)` for directives, `(1, 0)` for plain attributes -/
def weight (pfx name : String) : Int × Int :=
  if hasPrefix pfx name then (0, wlookup (strip pfx name)) else (1, 0)

/-- the local `x` / `y` after the two `if strings.HasPrefix` blocks: stripped only when prefixed -/
def mapKey (pfx name : String) : String := if hasPrefix pfx name then strip pfx name else name

/-- the local `xw` / `yw` -/
def pw (pfx name : String) : Nat := if hasPrefix pfx name then 0 else 1

/-- the comparator passed to `sort.SliceStable`, read literally.  Note the last line looks the *unstripped*
    name of an unprefixed `x` up in the map when `y` is prefixed. -/
def lt (pfx x y : String) : Bool :=
  if pw pfx x < pw pfx y then true
  else if pw pfx x == 1 && pw pfx y == 1 then false
  else decide (wlookup (mapKey pfx x) < wlookup (mapKey pfx y))

/-- insertion of `x` (which originally preceded all of the list) into a sorted list: it passes only elements
    strictly less than it -/
def insertBy {α} (lt : α → α → Bool) (x : α) : List α → List α
  | [] => [x]
  | y :: ys => if lt y x then y :: insertBy lt x ys else x :: y :: ys

/-- stable insertion sort -/
def isort {α} (lt : α → α → Bool) : List α → List α
  | [] => []
  | x :: xs => insertBy lt x (isort lt xs)

/-- the attribute names in the order `SortedAttr(pfx)` returns them (`sort.SliceStable`'s result is determined
    by the comparator whenever it is a strict weak order, see `lt_strict_weak`) -/
def sortedAttrs (pfx : String) (l : List String) : List String := isort (lt pfx) l

/-- `sortedAttrs` for records carrying a name -/
def sortedBy {α} (pfx : String) (name : α → String) (l : List α) : List α :=
  isort (fun a b => lt pfx (name a) (name b)) l

/-- side condition of the order theorems: no attribute WITHOUT the prefix is literally named like a key of the
    weight map (`<p if="x" :text="y">` makes the Go comparator cyclic, see `lt_not_asymm_witness`) -/
def NoPlainDirectiveName (pfx : String) (l : List String) : Prop :=
  ∀ n ∈ l, hasPrefix pfx n = false → n ∉ weightKeys

instance (pfx : String) (l : List String) : Decidable (NoPlainDirectiveName pfx l) := by
  unfold NoPlainDirectiveName; infer_instance

/-- directive named one of `ks` -/
def isDir (pfx : String) (ks : List String) (n : String) : Bool := hasPrefix pfx n && ks.contains (strip pfx n)

/-- directive not named any of `ks` -/
def isOtherDir (pfx : String) (ks : List String) (n : String) : Bool := hasPrefix pfx n && !ks.contains (strip pfx n)

/-- names of the conditional family -/
def condNames : List String := ["if", "else-if", "elseif", "elif", "else"]

/-- the directive names that carry a weight, as documented -/
def directiveNames : List String := "with" :: condNames ++ ["range", "remove"]

end AT
