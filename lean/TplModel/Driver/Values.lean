import Lean.Data.Json
import TplModel.Exp.Eval
/-! Typed JSON ⇄ value universe (the harness builds the same values natively in Go). -/
namespace DV
open Lean (Json)
open EV (Val IK FnSpec)

def str? (j : Json) (k : String) : Option String := (j.getObjValAs? String k).toOption
def arr? (j : Json) (k : String) : Option (Array Json) := (j.getObjValAs? (Array Json) k).toOption
def nat? (j : Json) (k : String) : Option Nat := (j.getObjValAs? Nat k).toOption
def bool? (j : Json) (k : String) : Option Bool := (j.getObjValAs? Bool k).toOption

def floatOfBits (s : String) : Float := Float.ofBits (s.toNat!.toUInt64)

/-- {"b":true} {"i":"int","v":"-3"} {"f":"float64","bits":"…"} {"s":"…"} {"sl":"[]int","xs":[…],"cap":3}
    {"ar":"[2]string","xs":[…]} {"m":"map[string]interface {}","kv":[["k",v],…]}
    {"st":"S","fs":[["A",true,false,v],…]} {"p":"S","id":1,"to":v|null} {"fn":"c1"} null -/
partial def valOfJson (j : Json) : Val :=
  match j with
  | .null => .nil
  | _ =>
    if let some b := bool? j "b" then .bool b
    else if let some k := str? j "i" then
      .int ((EV.ikOfName k).getD .int) ((str? j "v").getD "0").toInt!
    else if let some k := str? j "f" then
      let x := floatOfBits ((str? j "bits").getD "0")
      if k = "float32" then .f32 x else .f64 x
    else if let some s := str? j "s" then .str s
    else if let some ty := str? j "sl" then
      let xs := ((arr? j "xs").getD #[]).toList.map valOfJson
      .slice ty xs ((nat? j "cap").getD xs.length)
    else if let some ty := str? j "ar" then .array ty (((arr? j "xs").getD #[]).toList.map valOfJson)
    else if let some ty := str? j "m" then
      .map ty (((arr? j "kv").getD #[]).toList.map fun kv =>
        match kv with
        | .arr #[.str k, v] => (k, valOfJson v)
        | _ => ("?", .nil))
    else if let some ty := str? j "st" then
      .struct ty (((arr? j "fs").getD #[]).toList.map fun f =>
        match f with
        | .arr #[.str n, .bool ex, .bool emb, v] => (n, ex, emb, valOfJson v)
        | _ => ("?", false, false, .nil))
    else if let some ty := str? j "p" then
      let tgt := match j.getObjVal? "to" with
        | .ok .null => none
        | .ok t => some (valOfJson t)
        | .error _ => none
      .ptr ty ((nat? j "id").getD 0) tgt
    else if let some id := str? j "fn" then .func id
    else .nil

/-- {"c1":{"sig":"func() bool","arity":0,"ret":v,"second":null|false|true,"panics":false,"two":false}} -/
def fnsOfJson (j : Json) : List (String × FnSpec) :=
  match j with
  | .obj kvs => kvs.toList.map fun (k, v) =>
    (k, { sig := (str? v "sig").getD "func()", arity := (nat? v "arity").getD 0,
          ret := valOfJson ((v.getObjVal? "ret").toOption.getD .null),
          second := bool? v "second", panics := (bool? v "panics").getD false, twoVals := (bool? v "two").getD false })
  | _ => []

end DV
