import Lean.Data.Json
import TplModel.Html.Scan
import TplModel.Html.CodeScan
import TplModel.Exp.Parse
import TplModel.Exp.Eval
import TplModel.Driver.Values
import TplModel.Html.Engine
import TplModel.Exp.ScopeTree
import TplModel.Sys.Reload
import TplModel.Sys.FsParse
import TplModel.Sys.Xtpl
import TplModel.Proofs.RenderRefineBase
/-! Request handlers of the JSON-lines driver: one JSON object in, one JSON object out. -/
namespace Ops
open Lean (Json)
open DV

def posJ (p : HS.Pos) : Json := Json.arr #[p.line, p.col]
def strJ (cs : List Char) : Json := Json.str (String.ofList cs)

def attrJ (a : HS.Attr) : Json :=
  Json.mkObj [("n", strJ a.name), ("ns", posJ a.nameStart), ("ne", posJ a.nameEnd),
    ("v", match a.value with | some v => strJ v | none => Json.null), ("vs", posJ a.valueStart), ("ve", posJ a.valueEnd)]
def kindJ : HS.Kind → Json
  | .tag => 1 | .text => 2 | .comment => 3 | .cdata => 4
def tokJ (t : HS.Token) : Json :=
  Json.mkObj [("k", kindJ t.kind), ("v", strJ t.value), ("s", posJ t.start), ("e", posJ t.stop),
    ("tag", match t.tag with
      | some tg => Json.mkObj [("name", strJ tg.name), ("attrs", Json.arr (tg.attrs.toArray.map attrJ))]
      | none => Json.null)]

def cfgOf (j : Json) : HS.Cfg :=
  let tt := (j.getObjValAs? (Array String) "textTags").toOption.getD #["script", "style", "textarea", "title"]
  { textTags := tt.toList.map String.toList }

/-- raw scanner (no attribute compilation: `prefix` set to something no attribute starts with is the caller's job) -/
def scanOp (j : Json) : Json :=
  let s := (str? j "src").getD ""
  match HS.scan (cfgOf j) s.toList with
  | .ok ts => Json.mkObj [("ok", Json.arr (ts.toArray.map tokJ))]
  | .error e => Json.mkObj [("err", Json.str (match e with
      | .eofInTag => "eof" | .comment => "comment" | .dupAttr => "dup" | .panic site => "panic:" ++ site))]

def ckindN : CS.Kind → Nat
  | .begEnd => 1 | .literal => 2 | .codeStart => 3 | .codeValue => 4 | .codeEnd => 5

def codescanOp (j : Json) : Json :=
  let s := (str? j "src").getD ""
  let line := (nat? j "line").getD 1
  let col := (nat? j "col").getD 1
  let ts := CS.scan ⟨line, col⟩ s.toList
  let failed : Bool := match ts.getLast? with
    | some t => t.value == "ERR".toList && t.start.line == 0
    | none => false
  let ts := if failed then ts.dropLast else ts
  Json.mkObj [("err", Json.bool failed), ("toks", Json.arr (ts.toArray.map fun t =>
    Json.mkObj [("k", ckindN t.kind), ("v", strJ t.value), ("s", posJ t.start), ("e", posJ t.stop)]))]

def parseOp (j : Json) : Json :=
  match EL.parseCode ((str? j "src").getD "") with
  | .accept e => Json.mkObj [("r", "accept"), ("t", Json.str e.sexp)]
  | .reject => Json.mkObj [("r", "reject")]
  | .unsupported => Json.mkObj [("r", "unsupported")]

/-- canonical, deep, type-tagged rendering of a value (the harness prints Go values the same way) -/
partial def canon : EV.Val → String
  | .nil => "nil"
  | .bool b => s!"bool:{b}"
  | .int k v => s!"{k.name}:{v}"
  | .f64 x => if x.isNaN then "float64:NaN" else s!"float64:{x.toBits}"
  | .f32 x => if x.isNaN then "float32:NaN" else s!"float32:{x.toBits}"
  | .str s => s!"string:{EL.hexOf s}"
  | .slice ty xs c => s!"slice:{ty}:cap{c}[" ++ " ".intercalate (xs.map canon) ++ "]"
  | .array ty xs => s!"array:{ty}[" ++ " ".intercalate (xs.map canon) ++ "]"
  | .map ty kvs =>
    let sorted := kvs.toArray.qsort (fun a b => a.1 < b.1) |>.toList
    s!"map:{ty}" ++ "{" ++ " ".intercalate (sorted.map fun kv => EL.hexOf kv.1 ++ "=" ++ canon kv.2) ++ "}"
  | .struct ty _ => s!"struct:{ty}"
  | .ptr ty _ t => s!"ptr:{ty}:{if t.isSome then "set" else "nil"}"
  | .func _ => "func"
  | .meth _ _ _ => "func"

def unsupportedMark : String := "00554e535550504f52544544"     -- hex of "\x00UNSUPPORTED"

def evalOp (j : Json) : Json :=
  let src := (str? j "src").getD ""
  let fns := fnsOfJson ((j.getObjVal? "fns").toOption.getD .null)
  let frames := match arr? j "frames" with
    | some fs => fs.toList.map valOfJson
    | none => [valOfJson ((j.getObjVal? "data").toOption.getD .null)]
  match EL.parseCode src with
  | .unsupported => Json.mkObj [("r", "unsupported")]
  | .reject => Json.mkObj [("r", "reject")]
  | .accept e =>
    match (EV.eval fns frames e).run {} with
    | .error () => Json.mkObj [("r", "panic")]
    | .ok (v, st) =>
      let calls := Json.arr (st.calls.reverse.toArray.map Json.str)
      if st.unsupported then Json.mkObj [("r", "unsupported")] else
      match st.err with
      | some err => Json.mkObj [("r", "err"), ("sentinel", err.sentinel), ("nosuch", err.nosuch), ("calls", calls)]
      | none =>
        let c := canon v
        if (c.splitOn unsupportedMark).length > 1 then Json.mkObj [("r", "unsupported")]
        else Json.mkObj [("r", "ok"), ("v", c), ("calls", calls)]

/-- Scope.Get on a chain of frames (innermost first), default scope last -/
def scopegetOp (j : Json) : Json :=
  let frames := ((arr? j "frames").getD #[]).toList.map valOfJson
  let name := (str? j "name").getD ""
  match EV.scopeGet frames name with
  | .found v => Json.mkObj [("r", "found"), ("v", canon v)]
  | .absent => Json.mkObj [("r", "absent")]
  | .failed => Json.mkObj [("r", "failed")]


/-- scope trees built through the public API: {"leaf":tv} | {"combine":[child,parent]} | {"default":tree} -/
partial def scopeOfJson (j : Json) : EV.Scope :=
  match j.getObjVal? "combine" with
  | .ok (.arr #[c, p]) => EV.Combine (scopeOfJson c) (scopeOfJson p)
  | _ =>
    match j.getObjVal? "default" with
    | .ok t => EV.WithDefaultScope (scopeOfJson t)
    | _ => EV.NewScope (valOfJson ((j.getObjVal? "leaf").toOption.getD .null))

def scopetreeOp (j : Json) : Json :=
  let sc := scopeOfJson ((j.getObjVal? "tree").toOption.getD .null)
  match sc.get ((str? j "name").getD "") with
  | .found v => Json.mkObj [("r", "found"), ("v", canon v)]
  | .absent => Json.mkObj [("r", "absent")]
  | .failed => Json.mkObj [("r", "failed")]

/-- renderer with reload (render.go): {"hot":b,"first":build,"ops":[{"k":"reload","b":build} | {"k":"request","name":n,"b":build,"hdr":b} | {"k":"get","name":n,"b":build}]}
    build = null (fails) | {"id":n,"names":[…]} -/
def buildOfJson (j : Json) : RL.Build :=
  match j with
  | .null => .fail
  | _ => .ok (RL.Mgr.ofList ((nat? j "id").getD 0) (((j.getObjValAs? (Array Nat) "names").toOption.getD #[]).toList))

def resJ : RL.Res → Json
  | .served id found => Json.mkObj [("served", id), ("found", found)]
  | .buildErr => "buildErr"
  | .noManager => "noManager"

def reloadOp (j : Json) : Json :=
  let hot := (bool? j "hot").getD false
  let first := buildOfJson ((j.getObjVal? "first").toOption.getD .null)
  let ops := ((arr? j "ops").getD #[]).toList.map fun o =>
    let b := buildOfJson ((o.getObjVal? "b").toOption.getD .null)
    match str? o "k" with
    | some "reload" => RL.Op.reload b
    | some "request" => RL.Op.request ((nat? o "name").getD 0) b ((bool? o "hdr").getD false)
    | _ => RL.Op.getTemplate ((nat? o "name").getD 0) b
  let outs := RL.run hot first ops
  Json.mkObj [("initErr", Json.bool (RL.init hot first).2), ("outs", Json.arr (outs.toArray.map fun o =>
    match o with
    | .reloadOk => Json.str "reloadOk"
    | .reloadErr => Json.str "reloadErr"
    | .request r ct => Json.mkObj [("request", resJ r), ("ct", ct)]
    | .getTemplate r => Json.mkObj [("get", resJ r)]))]

/-- one element of `"defines"`: a JSON string is a `define` with that name, anything else (`null`) is a `define` whose
    name fails to evaluate -/
def defineOfJson : Json → Option String
  | .str s => some s
  | _ => none

/-- manager.Parse over an abstract walk:
    {"suffix":s,"entries":[{"path":p,"dir":b,"walkErr":b,"openErr":b,"loadErr":b,"defines":[name | null, …]}]}
    (`"defines"`: pre-order list of the `define`s of the file; a string = its name, `null` = the name fails to evaluate;
    a missing or non-array `"defines"` is the empty list) -/
def fsparseOp (j : Json) : Json :=
  let suffix := (str? j "suffix").getD ""
  let entries := ((arr? j "entries").getD #[]).toList.map fun e =>
    ({ path := (str? e "path").getD "", isDir := (bool? e "dir").getD false, walkErr := (bool? e "walkErr").getD false,
       openErr := (bool? e "openErr").getD false,
       content := { loadErr := (bool? e "loadErr").getD false,
                    defines := ((arr? e "defines").getD #[]).toList.map defineOfJson } } : FP.Entry)
  let (r, st) := FP.run (fun p => p.endsWith suffix) entries
  let rs : String := match r with
    | .ok => "ok"
    | .err .walk => "walk" | .err .open => "open" | .err .load => "load" | .err .duplicate => "duplicate"
  Json.mkObj [("r", rs), ("files", Json.arr (st.files.toArray.map Json.str)), ("templates", Json.arr (st.templates.toArray.map Json.str)),
    ("opens", Json.arr (st.opens.toArray.map Json.str)), ("closes", Json.arr (st.closes.toArray.map Json.str))]

/-- xtpl extraction over the ${} blocks of a template set:
    {"keywords":flag,"blocks":[src…]} ↦ catalogue rows [ctx, id, plural, number of references] in first-occurrence order -/
def xtplOp (j : Json) : Json :=
  match XT.parseKeywords ((str? j "keywords").getD XT.defaultKeywordsFlag) with
  | none => Json.mkObj [("r", "badkeywords")]
  | some kws =>
    let blocks := ((j.getObjValAs? (Array String) "blocks").toOption.getD #[]).toList
    let trees : Option (List ((Nat → Nat → Nat) × EL.E)) := (blocks.zipIdx).mapM fun (src, b) =>
      match EL.parseCode src with
      | .accept e => some ((fun n i => b * 10000 + n * 100 + i), e)
      | _ => none
    match trees with
    | none => Json.mkObj [("r", "unsupported")]
    | some ts =>
      let rows := XT.catalogue (XT.extractMany kws ts)
      Json.mkObj [("r", "ok"), ("rows", Json.arr (rows.toArray.map fun (k, pl, refs) =>
        Json.arr #[Json.str k.1, Json.str k.2, Json.str pl, (refs.length : Nat)]))]

/-! ### whole engine: load files into a manager, look a template up, execute it (faithful model and specification) -/

def clsJ : RN.Cls → Json
  | .eval s n => Json.mkObj [("cls", "eval"), ("sentinel", s), ("nosuch", n)]
  | .attrValueExpected => Json.mkObj [("cls", "attrValueExpected")]
  | .withSyntax => Json.mkObj [("cls", "withSyntax")]
  | .unexpectedElse => Json.mkObj [("cls", "unexpectedElse")]
  | .rangeObject => Json.mkObj [("cls", "rangeObject")]
  | .rangeKind => Json.mkObj [("cls", "rangeKind")]
  | .tplNotFound => Json.mkObj [("cls", "tplNotFound")]
  | .tooDeep => Json.mkObj [("cls", "tooDeep")]
  | .nilTag => Json.mkObj [("cls", "nilTag")]

def statusJ : RN.Status → Json
  | .ok => "ok"
  | .fuel => "fuel"
  | .err c => Json.mkObj [("err", clsJ c)]

def runJ (st : RN.Status) (out log : List String) : Json :=
  Json.mkObj [("st", statusJ st), ("chunks", Json.arr (out.toArray.map Json.str)),
    ("log", Json.arr ((log.filter (· ≠ EN.unsupportedEv)).toArray.map Json.str))]

def cfgOfJ (j : Json) : EN.Cfg :=
  let c := (j.getObjVal? "cfg").toOption.getD (Json.mkObj [])
  let d : EN.Cfg := {}
  { textTags := ((c.getObjValAs? (Array String) "textTags").toOption.map (·.toList)).getD d.textTags,
    voidTags := ((c.getObjValAs? (Array String) "voidTags").toOption.map (·.toList)).getD d.voidTags,
    tagPrefix := (str? c "tagPrefix").getD d.tagPrefix,
    attrPrefix := (str? c "attrPrefix").getD d.attrPrefix }

def loadFiles (cfg : EN.Cfg) (fns : List (String × EV.FnSpec)) (files : List (Array String)) : EN.LoadRes EN.Mgr :=
  EN.loadFiles cfg fns (files.map fun f => (f[0]!, f[1]!))

/-- Bool mirror of `RN.Sorted` (the hypothesis of `RN.exec_refines_ref`), evaluated on every loaded template -/
partial def sortedB (cfg : RN.Cfg) (n : RN.Node) : Bool :=
  RN.orderFrom cfg 0 n.d.attrs && n.kids.all (sortedB cfg)

/-- do the loaded templates satisfy the hypotheses of the refinement theorem (unique ids, documented attribute order)? -/
def hypOK (m : EN.Mgr) : Bool :=
  m.templates.all fun (_, t) => decide ((RN.ids t).Nodup) && sortedB (EN.rcfgOf m.cfg) t

/-- {"op":"render","files":[[name,src]…],"tpl":name,"data":tv,"global":tv,"fns":{…},"cfg":{…}} -/
def renderOp (j : Json) : Json :=
  let files := (j.getObjValAs? (Array (Array String)) "files").toOption.getD #[]
  let tplName := (str? j "tpl").getD ""
  let fns := fnsOfJson ((j.getObjVal? "fns").toOption.getD .null)
  let cfg := cfgOfJ j
  match loadFiles cfg fns files.toList with
  | .err => Json.mkObj [("load", "err")]
  | .panic => Json.mkObj [("load", "panic")]
  | .unsupported => Json.mkObj [("load", "unsupported")]
  | .ok m =>
    let names := Json.arr ((m.templates.map (·.1)).toArray.map Json.str)
    match m.templates.find? (·.1 == tplName) with
    | none => Json.mkObj [("load", "ok"), ("get", "notfound"), ("templates", names)]
    | some (_, root) =>
      let dv := match valOfJson ((j.getObjVal? "data").toOption.getD .null) with | .nil => EN.emptyMap | v => v
      let gv := match valOfJson ((j.getObjVal? "global").toOption.getD .null) with | .nil => EN.emptyMap | v => v
      let env := EN.envOf m
      let rc := EN.rcfgOf cfg
      let fuel := EN.fuelFor m
      let r := RN.execute rc env fuel root [dv, gv]
      let q := RN.refExecute rc env fuel root [dv, gv]
      if r.log.contains EN.unsupportedEv || q.log.contains EN.unsupportedEv then Json.mkObj [("load", "unsupported")]
      else Json.mkObj [("load", "ok"), ("get", "found"), ("templates", names), ("hyp", hypOK m),
        ("impl", runJ r.st r.out r.log), ("spec", runJ q.st q.out q.log)]

end Ops
