import TplModel.Driver.Ops
open Lean (Json)

def handle (j : Json) : Json :=
  match (j.getObjValAs? String "op").toOption with
  | some "scan" => Ops.scanOp j
  | some "codescan" => Ops.codescanOp j
  | some "parse" => Ops.parseOp j
  | some "eval" => Ops.evalOp j
  | some "scopeget" => Ops.scopegetOp j
  | some "render" => Ops.renderOp j
  | some "scopetree" => Ops.scopetreeOp j
  | some "reload" => Ops.reloadOp j
  | some "fsparse" => Ops.fsparseOp j
  | some "xtpl" => Ops.xtplOp j
  | some "ping" => Json.mkObj [("pong", true)]
  | _ => Json.mkObj [("bad", "unknown op")]

partial def loop (h : IO.FS.Stream) (out : IO.FS.Stream) : IO Unit := do
  let line ← h.getLine
  if line.isEmpty then return ()
  match Json.parse line with
  | .ok j => out.putStrLn (Json.compress (handle j))
  | .error e => out.putStrLn (Json.compress (Json.mkObj [("bad", Json.str e)]))
  out.flush
  loop h out

def main : IO Unit := do loop (← IO.getStdin) (← IO.getStdout)
