#!/bin/bash
# MANIFEST.setup_cmd: builds the framework from files on disk only (offline).
set -e -o pipefail
cd "$(dirname "$0")"
export GOFLAGS=-mod=mod GOPROXY=off GOSUMDB=off GOTOOLCHAIN=local
REPO=${VERIF_REPO:-/repo}
mkdir -p .build .work/out evidence replays
sed "s#replace code.gopub.tech/tpl => .*#replace code.gopub.tech/tpl => $REPO#" harness/go.mod > .build/harness.mod
cp $REPO/go.sum .build/harness.sum
(cd harness && go build -modfile=../.build/harness.mod -tags verif -o ../.build/harness .)
.build/harness facts -repo $REPO -out lean/TplModel/Generated/Facts.lean
(cd lean && lake build TplModel tpldriver 2>&1 | grep -v "warning\|^Note\|^Hint\|\[apply\]\|^$\|deprecated\|unused\|^  " | tail -15)
test -x lean/.lake/build/bin/tpldriver
echo setup-ok
