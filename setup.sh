#!/bin/bash
# MANIFEST.setup_cmd: builds the framework from files on disk only (offline).
set -e
cd "$(dirname "$0")"
export GOFLAGS=-mod=mod GOPROXY=off GOSUMDB=off GOTOOLCHAIN=local
mkdir -p .build .work/out evidence replays
cp /repo/go.sum harness/go.sum
(cd harness && go build -tags verif -o ../.build/harness .)
.build/harness facts -repo /repo -out lean/TplModel/Generated/Facts.lean
(cd lean && lake build TplModel tpldriver 2>&1 | grep -v "warning\|^Note\|^Hint\|\[apply\]\|^$\|deprecated\|unused\|^  " | tail -15)
test -x lean/.lake/build/bin/tpldriver
echo setup-ok
