import Lean.Data.Json
import Smoke.Scan
import Smoke.ExpParse
import Smoke.CodeScan
import Smoke.Eval
import Smoke.Full
open Lean HS

def posJ (p : Pos) : Json := Json.arr #[p.line, p.col]
def strJ (cs : List Char) : Json := Json.str (String.mk cs)
def attrJ (a : Attr) : Json :=
  Json.mkObj [("n", strJ a.name), ("ns", posJ a.nameStart), ("ne", posJ a.nameEnd),
    ("v", match a.value with | some v => strJ v | none => Json.null), ("vs", posJ a.valueStart), ("ve", posJ a.valueEnd)]
def kindJ : Kind → Json
  | .tag => 1 | .text => 2 | .comment => 3 | .cdata => 4
def tokJ (t : Token) : Json :=
  Json.mkObj [("k", kindJ t.kind), ("v", strJ t.value), ("s", posJ t.start), ("e", posJ t.stop),
    ("tag", match t.tag with
      | some tg => Json.mkObj [("name", strJ tg.name), ("attrs", Json.arr (tg.attrs.toArray.map attrJ))]
      | none => Json.null)]

partial def loop (h : IO.FS.Stream) (out : IO.FS.Stream) : IO Unit := do
  let line ← h.getLine
  if line.isEmpty then return ()
  match Json.parse line with
  | .ok j =>
    let s := (j.getObjValAs? String "src").toOption.getD ""
    if (j.getObjValAs? String "op").toOption == some "render" then
      out.putStrLn (Json.compress (Full.renderOp j))
      out.flush
      return ← loop h out
    if (j.getObjValAs? String "op").toOption == some "codescan" then
      let ts := CS.scan ⟨1, 1⟩ s.toList
      let kindN : CS.Kind → Nat
        | .begEnd => 1 | .literal => 2 | .codeStart => 3 | .codeValue => 4 | .codeEnd => 5
      out.putStrLn (Json.compress (Json.arr (ts.toArray.map fun t =>
        Json.mkObj [("k", kindN t.kind), ("v", strJ t.value), ("s", posJ t.start), ("e", posJ t.stop)])))
      out.flush
      return ← loop h out
    if (j.getObjValAs? String "op").toOption == some "eval" then
      out.putStrLn (Json.compress (Json.str (EV.run s)))
      out.flush
      return ← loop h out
    if (j.getObjValAs? String "op").toOption == some "parse" then
      match EL.parseCode s with
      | .accept e => out.putStrLn (Json.compress (Json.mkObj [("r", "accept"), ("t", Json.str e.sexp)]))
      | .reject => out.putStrLn (Json.compress (Json.mkObj [("r", "reject")]))
      | .unsupported => out.putStrLn (Json.compress (Json.mkObj [("r", "unsupported")]))
      out.flush
      return ← loop h out
    let tt := (j.getObjValAs? (Array String) "textTags").toOption.getD #[]
    let cfg : Cfg := { textTags := tt.toList.map String.toList }
    match scan cfg s.toList with
    | .ok ts => out.putStrLn (Json.compress (Json.mkObj [("ok", Json.arr (ts.toArray.map tokJ))]))
    | .error e => out.putStrLn (Json.compress (Json.mkObj [("err", Json.str (reprStr e))]))
  | .error e => out.putStrLn s!"bad json: {e}"
  out.flush
  loop h out

def main : IO Unit := do loop (← IO.getStdin) (← IO.getStdout)
