namespace Smoke

inductive Kind | text | tag
deriving Repr, DecidableEq

structure Tok where
  kind : Kind
  value : List Char
deriving Repr

inductive Mode | init | text | tag
deriving Repr, DecidableEq

structure St where
  mode : Mode
  buf : List Char      -- reversed
  toks : List Tok      -- reversed
deriving Repr

def emit (s : St) (k : Kind) : St :=
  { mode := .init, buf := [], toks := ⟨k, s.buf.reverse⟩ :: s.toks }

def step (s : St) (c : Char) : St :=
  match s.mode with
  | .init => if c = '<' then { s with mode := .tag, buf := [c] } else { s with mode := .text, buf := [c] }
  | .text => if c = '<' then { (emit s .text) with mode := .tag, buf := [c] } else { s with buf := c :: s.buf }
  | .tag => if c = '>' then emit { s with buf := c :: s.buf } .tag else { s with buf := c :: s.buf }

def finish (s : St) : Option (List Tok) :=
  match s.mode with
  | .init => some s.toks.reverse
  | .text => some (emit s .text).toks.reverse
  | .tag => none

def scan (cs : List Char) : Option (List Tok) := finish (cs.foldl step ⟨.init, [], []⟩)

def consumed (s : St) : List Char := (s.toks.reverse.map (·.value)).flatten ++ s.buf.reverse

theorem step_consumed (s : St) (c : Char) (h : s.mode = .init → s.buf = []) :
    consumed (step s c) = consumed s ++ [c] ∧ ((step s c).mode = .init → (step s c).buf = []) := by
  unfold step consumed emit
  cases hm : s.mode <;> simp [hm] at * <;> split <;> simp_all

theorem fold_consumed (cs : List Char) (s : St) (h : s.mode = .init → s.buf = []) :
    consumed (cs.foldl step s) = consumed s ++ cs ∧ ((cs.foldl step s).mode = .init → (cs.foldl step s).buf = []) := by
  induction cs generalizing s with
  | nil => exact ⟨by simp, h⟩
  | cons c cs ih =>
    have := step_consumed s c h
    have := ih (step s c) this.2
    simp_all

theorem scan_concat (cs : List Char) (ts : List Tok) (h : scan cs = some ts) :
    (ts.map (·.value)).flatten = cs := by
  unfold scan finish at h
  have := fold_consumed cs ⟨.init, [], []⟩ (by simp)
  generalize cs.foldl step ⟨.init, [], []⟩ = s at *
  unfold consumed at this
  cases hm : s.mode <;> simp [hm, emit] at h this <;> subst h
  · obtain ⟨h1, h2⟩ := this; simpa [h2] using h1
  · simpa using this

end Smoke
