import Smoke.ExpParse
namespace EV
open EL (E)

inductive IK | int | int8 | int16 | int32 | int64 | uint | uint8 | uint16 | uint32 | uint64
deriving DecidableEq, Repr

def IK.name : IK → String
  | .int => "int" | .int8 => "int8" | .int16 => "int16" | .int32 => "int32" | .int64 => "int64"
  | .uint => "uint" | .uint8 => "uint8" | .uint16 => "uint16" | .uint32 => "uint32" | .uint64 => "uint64"

inductive Val
  | nil
  | bool (b : Bool)
  | int (k : IK) (v : Int)
  | f64 (x : Float)
  | f32 (x : Float)
  | str (s : String)
  | slice (ty : String) (xs : List Val) (cap : Nat)
  | array (ty : String) (xs : List Val)
  | map (ty : String) (kvs : List (String × Val))
  | struct (ty : String) (fields : List (String × Bool × Bool × Val))   -- name, exported, embedded, value
  | ptr (ty : String) (id : Nat) (target : Option Val)
  | func (id : String)
  | meth (ty : String) (name : String) (recv : Val)
deriving Inhabited

/-- first error wins? no: the visitor overwrites; we record the class of the *last* error and whether the
    final error still wraps the injected sentinel -/
structure Err where
  sentinel : Bool
deriving Repr

inductive Out
  | val (v : Val)
  | err (e : Err)          -- Evaluate returned v.error
  | panicked               -- recovered in Evaluate: "recovered from panic"

def wrap64 (i : Int) : Int := (BitVec.ofInt 64 i).toInt

def isInt : Val → Option Int
  | .int .uint64 v => some (wrap64 v)
  | .int _ v => some v
  | _ => none
def isFloat : Val → Option Float
  | .f64 x => some x
  | .f32 x => some x
  | _ => none

/-- method sets of the harness types -/
def methodsOf (ty : String) (isPtr : Bool) : List String :=
  if ty = "S" then (if isPtr then ["Get", "Ptr"] else ["Get"]) else []

inductive Look | found (v : Val) | absent | failed

def parseDecInt (s : String) : Option Int :=
  let cs := s.toList
  let (neg, ds) := match cs with
    | '-' :: r => (true, r)
    | '+' :: r => (false, r)
    | r => (false, r)
  if ds.isEmpty || !ds.all Char.isDigit then none
  else
    let n : Nat := ds.foldl (fun a c => a * 10 + (c.toNat - 48)) 0
    if n > 9223372036854775807 + (if neg then 1 else 0) then none
    else some (if neg then -(n : Int) else n)

partial def fieldByName (fields : List (String × Bool × Bool × Val)) (name : String) : Option (Bool × Val) :=
  match fields.find? (fun f => f.1 = name) with
  | some f => some (f.2.1, f.2.2.2)
  | none =>
    -- promoted fields of embedded structs (one level is all the harness types need)
    fields.findSome? fun f =>
      if f.2.2.1 then
        match f.2.2.2 with
        | .struct _ fs => fieldByName fs name
        | _ => none
      else none

def getValue (name : String) (from_ : Val) : Look :=
  match from_ with
  | .nil => .absent
  | _ =>
    let meth : Option Val :=
      match from_ with
      | .struct ty _ => if (methodsOf ty false).contains name then some (.meth ty name from_) else none
      | .ptr ty _ _ => if (methodsOf ty true).contains name then some (.meth ty name from_) else none
      | _ => none
    match meth with
    | some m => .found m
    | none =>
      let v := match from_ with
        | .ptr _ _ (some t) => some t
        | .ptr _ _ none => none
        | x => some x
      match v with
      | none => .absent                      -- nil pointer: Elem() is the zero Value → default branch
      | some (.struct _ fs) =>
        match fieldByName fs name with
        | some (exported, x) => if exported then .found x else .failed
        | none => .absent
      | some (.map _ kvs) =>
        match kvs.find? (fun kv => kv.1 = name) with
        | some kv => .found kv.2
        | none => .absent
      | some (.slice _ xs _) | some (.array _ xs) =>
        match parseDecInt name with
        | none => .failed
        | some i =>
          let i := if i < 0 then i + xs.length else i
          if i < 0 then .failed else
          match xs[i.toNat]? with
          | some x => .found x
          | none => .failed
      | _ => .absent

end EV

namespace EV
open EL (E)

structure St where
  err : Option Err := none
  calls : List String := []

abbrev M := StateT St (Except Unit)      -- Except Unit = a panic that unwinds to Evaluate's recover

def setErr (sentinel : Bool := false) : M Val := do
  modify fun s => { s with err := some ⟨sentinel⟩ }
  return .nil
def goPanic : M Val := throw ()
def hasErr : M Bool := do return (← get).err.isSome
def logCall (s : String) : M Unit := modify fun st => { st with calls := s :: st.calls }

/-- strconv.ParseInt(text, 0, 64) for the literal forms the lexer lets through -/
def parseIntLit (s : String) : Option Int :=
  let cs := s.toList.filter (· ≠ '_')
  let digs (base : Nat) (ds : List Char) : Option Nat :=
    if ds.isEmpty then none else
    ds.foldlM (fun a c =>
      let d := if c.isDigit then c.toNat - 48 else if 'a' ≤ c ∧ c ≤ 'f' then c.toNat - 87 else if 'A' ≤ c ∧ c ≤ 'F' then c.toNat - 55 else 99
      if d < base then some (a * base + d) else none) 0
  let r := match cs with
    | '0' :: 'x' :: r | '0' :: 'X' :: r => digs 16 r
    | '0' :: 'b' :: r | '0' :: 'B' :: r => digs 2 r
    | '0' :: 'o' :: r | '0' :: 'O' :: r => digs 8 r
    | '0' :: r => if r.isEmpty then some 0 else digs 8 r
    | r => digs 10 r
  match r with
  | some n => if n ≤ 9223372036854775807 then some n else none
  | none => none

/-- strconv.Unquote of a double-quoted literal body (ASCII-producing escapes only; others → none = unsupported) -/
def unquoteBody : Nat → List Char → List Char → Option (Option String)
  | 0, _, _ => some none
  | _+1, [], acc => some (some (String.mk acc.reverse))
  | f+1, c :: rest, acc =>
    if c = '"' || c = '\n' then some none
    else if c = '\\' then
      match rest with
      | 'a' :: r => unquoteBody f r ('\x07' :: acc)
      | 'b' :: r => unquoteBody f r ('\x08' :: acc)
      | 'f' :: r => unquoteBody f r ('\x0c' :: acc)
      | 'n' :: r => unquoteBody f r ('\n' :: acc)
      | 'r' :: r => unquoteBody f r ('\r' :: acc)
      | 't' :: r => unquoteBody f r ('\t' :: acc)
      | 'v' :: r => unquoteBody f r ('\x0b' :: acc)
      | '\\' :: r => unquoteBody f r ('\\' :: acc)
      | '"' :: r => unquoteBody f r ('"' :: acc)
      | _ => some none            -- incl. \' which strconv rejects inside double quotes; \x \u \0 left out of the experiment
    else unquoteBody f rest (c :: acc)

def replaceAll (s : List Char) (pat rep : List Char) : List Char :=
  let rec go : Nat → List Char → List Char
    | 0, cs => cs
    | f+1, cs =>
      if cs.isEmpty then [] else
      if pat.isPrefixOf cs then rep ++ go f (cs.drop pat.length)
      else cs.head! :: go f cs.tail
  go (s.length + 1) s

def decodeStr (text : String) : Option String :=      -- none = strconv.Unquote fails → panic
  let cs := text.toList
  match cs with
  | '`' :: r => some (String.mk (r.take (r.length - 1)))
  | '\'' :: _ =>
    let t := replaceAll cs "\\'".toList "'".toList
    let body := (t.drop 1).take (t.length - 2)
    (unquoteBody (body.length + 1) body []).join
  | '"' :: r => (unquoteBody r.length (r.take (r.length - 1)) []).join
  | _ => none

def parseFloatLit (s : String) : Option Float :=      -- only  D+ '.' D*  forms in the experiment
  match s.splitOn "." with
  | [a, b] =>
    if a.all Char.isDigit && b.all Char.isDigit && !a.isEmpty then
      some (Float.ofScientific (a ++ b).toNat! true b.length)
    else none
  | _ => none

def builtinNames : List String := ["true", "false", "len", "int", "int64", "float64", "string", "print"]

def scopeGet (frames : List Val) (name : String) : Look :=
  match frames with
  | [] =>
    if name = "true" then .found (.bool true) else if name = "false" then .found (.bool false)
    else if builtinNames.contains name then .found (.func name) else .absent
  | fr :: rest =>
    match getValue name fr with
    | .absent => scopeGet rest name
    | r => r

def toInt64 (v : Val) : Option Int := isInt v

def fmtV : Val → Option String
  | .nil => some "<nil>"
  | .bool b => some (toString b)
  | .int _ v => some (toString v)
  | .str s => some s
  | _ => none           -- floats, pointers, funcs, composites: %v not modelled in the experiment

def lenOf : Val → Option Nat
  | .str s => some s.utf8ByteSize
  | .slice _ xs _ => some xs.length
  | .array _ xs => some xs.length
  | .map _ kvs => some kvs.length
  | _ => none

/-- call a function value with evaluated arguments; `none` = panic inside reflect.Call / the function,
    which callFunc recovers into an error -/
def callFn (fn : Val) (args : List Val) : Option (List Val × Option Bool) :=   -- results, (second result is error? sentinel?)
  match fn, args with
  | .func "ok", [] => some ([.int .int 1], none)
  | .func "inc", [.int .int64 a] => some ([.int .int64 (wrap64 (a + 1))], none)
  | .func "fail", [] => some ([.int .int 0, .nil], some true)
  | .func "two", [] => some ([.int .int 1, .int .int 2], none)
  | .func "len", [a] => (lenOf a).map fun n => ([.int .int n], none)
  | .func "int64", [a] => match a with
    | .int _ v => some ([.int .int64 (wrap64 v)], none)
    | _ => none
  | .func "int", [a] => match a with
    | .int _ v => some ([.int .int (wrap64 v)], none)
    | _ => none
  | .meth "S" "Get" (.struct _ fs), [] => (fs.find? (·.1 = "A")).map fun f => ([f.2.2.2], none)
  | .meth "S" "Get" (.ptr _ _ (some (.struct _ fs))), [] => (fs.find? (·.1 = "A")).map fun f => ([f.2.2.2], none)
  | .meth "S" "Ptr" (.ptr _ _ (some (.struct _ fs))), [] =>
    match fs.find? (·.1 = "A") with
    | some (_, _, _, .int k v) => some ([.int k (v + 1)], none)
    | _ => none
  | _, _ => none          -- boom, wrong arity / argument types, nil receivers …

def isFuncVal : Val → Bool
  | .func _ | .meth _ _ _ => true
  | _ => false

def numBin (op : String) (l r : Val) : M Val := do
  match isInt l, isInt r with
  | some a, some b =>
    match op with
    | "*" => return .int .int64 (wrap64 (a * b))
    | "+" => return .int .int64 (wrap64 (a + b))
    | "-" => return .int .int64 (wrap64 (a - b))
    | "/" => if b = 0 then goPanic else return .int .int64 (wrap64 (Int.tdiv a b))
    | _ => goPanic
  | _, _ =>
    let fa := match isInt l with | some a => some (Float.ofInt a) | none => isFloat l
    let fb := match isInt r with | some b => some (Float.ofInt b) | none => isFloat r
    match fa, fb with
    | some a, some b =>
      match op with
      | "*" => return .f64 (a * b)
      | "+" => return .f64 (a + b)
      | "-" => return .f64 (a - b)
      | "/" => return .f64 (a / b)
      | _ => goPanic
    | _, _ => setErr

def intBin (op : String) (l r : Val) : M Val := do
  match isInt l, isInt r with
  | some a, some b =>
    let bv := BitVec.ofInt 64 a
    match op with
    | "%" => if b = 0 then goPanic else return .int .int64 (Int.tmod a b)
    | "&" => return .int .int64 (bv &&& BitVec.ofInt 64 b).toInt
    | "|" => return .int .int64 (bv ||| BitVec.ofInt 64 b).toInt
    | "^" => return .int .int64 (bv ^^^ BitVec.ofInt 64 b).toInt
    | "&^" => return .int .int64 (bv &&& ~~~ (BitVec.ofInt 64 b)).toInt
    | "<<" => if b < 0 then goPanic else return .int .int64 (if b ≥ 64 then 0 else (bv <<< b.toNat).toInt)
    | ">>" => if b < 0 then goPanic else return .int .int64 (if b ≥ 64 then (if a < 0 then -1 else 0) else (bv.sshiftRight b.toNat).toInt)
    | _ => goPanic
  | _, _ => setErr

def funcSig (id : String) : String :=
  if id = "ok" || id = "boom" then "func() int" else if id = "inc" then "func(int64) int64"
  else if id = "fail" then "func() (int, error)" else if id = "two" then "func() (int, int)"
  else if id = "len" then "func(interface {}) int" else "builtin:" ++ id

def tyOf : Val → String
  | .nil => "nil" | .bool _ => "bool" | .int k _ => k.name | .f64 _ => "float64" | .f32 _ => "float32" | .str _ => "string"
  | .slice ty _ _ => ty | .array ty _ => ty | .map ty _ => ty | .struct ty _ => ty | .ptr ty _ _ => "*" ++ ty
  | .func id => funcSig id | .meth ty n _ => "meth:" ++ ty ++ "." ++ n

/-- Go's `==` on two interface values holding our universe; none = runtime panic (uncomparable type) -/
partial def ifaceEq (a b : Val) : Option Bool :=
  match a, b with
  | .nil, .nil => some true
  | .nil, _ | _, .nil => some false
  | _, _ =>
    if tyOf a ≠ tyOf b then some false else
    match a, b with
    | .bool x, .bool y => some (x == y)
    | .int _ x, .int _ y => some (x == y)
    | .f64 x, .f64 y => some (x == y)
    | .f32 x, .f32 y => some (x == y)
    | .str x, .str y => some (x == y)
    | .ptr _ i _, .ptr _ j _ => some (i == j)
    | .array _ xs, .array _ ys =>
      (List.zip xs ys).foldl (fun acc (p : Val × Val) => match acc, ifaceEq p.1 p.2 with
        | some r, some e => some (r && e) | _, _ => none) (some true)
    | _, _ => none        -- slices, maps, funcs, structs with uncomparable fields

def relOp (op : String) (l r : Val) : M Val := do
  match op with
  | "==" => match ifaceEq l r with | some b => return .bool b | none => goPanic
  | "!=" => match ifaceEq l r with | some b => return .bool !b | none => goPanic
  | _ =>
    let cmp {α} [LT α] [DecidableRel (α := α) (· < ·)] [BEq α] (a b : α) : Bool :=
      match op with
      | "<" => decide (a < b) | "<=" => decide (a < b) || a == b
      | ">" => decide (b < a) | _ => decide (b < a) || a == b
    match isInt l, isInt r with
    | some a, some b => return .bool (cmp a b)
    | _, _ =>
      let fa := match isInt l with | some a => some (Float.ofInt a) | none => isFloat l
      let fb := match isInt r with | some b => some (Float.ofInt b) | none => isFloat r
      match fa, fb with
      | some a, some b =>
        return .bool (match op with | "<" => a < b | "<=" => a ≤ b | ">" => a > b | _ => a ≥ b)
      | _, _ =>
        match l, r with
        | .str a, .str b => return .bool (cmp a b)
        | _, _ => setErr

partial def eval (data : List Val) : E → M Val
  | .lit "nil" _ => do if ← hasErr then return .nil else return .nil
  | .lit "int" t => do
    if ← hasErr then return .nil
    match parseIntLit t with | some v => return .int .int64 v | none => goPanic
  | .lit "float" t => do
    if ← hasErr then return .nil
    match parseFloatLit t with | some v => return .f64 v | none => goPanic
  | .lit "str" t => do
    if ← hasErr then return .nil
    match decodeStr t with | some s => return .str s | none => goPanic
  | .lit _ _ => goPanic
  | .name n => do
    if ← hasErr then return .nil
    match scopeGet data n with
    | .found v => return v
    | _ => setErr
  | .paren e => do if ← hasErr then return .nil else eval data e
  | .un op e => do
    if ← hasErr then return .nil
    let v ← eval data e
    match op with
    | "+" => match isInt v with
      | some a => return .int .int64 a
      | none => match isFloat v with | some x => return .f64 x | none => setErr
    | "-" => match isInt v with
      | some a => return .int .int64 (wrap64 (-a))
      | none => match isFloat v with | some x => return .f64 (-x) | none => setErr
    | "!" => match v with | .bool b => return .bool !b | _ => setErr
    | "^" => match isInt v with | some a => return .int .int64 (~~~ (BitVec.ofInt 64 a)).toInt | none => setErr
    | "*" => match v with
      | .ptr _ _ (some t) => return t
      | .ptr _ _ none => goPanic
      | _ => setErr
    | "&" => goPanic
    | _ => setErr
  | .bin "&&" l r => do
    if ← hasErr then return .nil
    let a ← eval data l
    if let .bool false := a then return .bool false
    let b ← eval data r
    match a, b with
    | .bool x, .bool y => return .bool (x && y)
    | _, _ => setErr
  | .bin "||" l r => do
    if ← hasErr then return .nil
    let a ← eval data l
    if let .bool true := a then return .bool true
    let b ← eval data r
    match a, b with
    | .bool x, .bool y => return .bool (x || y)
    | _, _ => setErr
  | .bin op l r => do
    if ← hasErr then return .nil
    let a ← eval data l
    let b ← eval data r
    if ["*", "/"].contains op then numBin op a b
    else if ["%", "<<", ">>", "&", "&^"].contains op then intBin op a b
    else if op = "+" then
      match a, b with
      | .str x, .str y => return .str (x ++ y)
      | .str _, _ | _, .str _ =>
        match fmtV a, fmtV b with
        | some x, some y => return .str (x ++ y)
        | _, _ => return .str "\x00UNSUPPORTED"
      | _, _ => numBin op a b
    else if op = "-" then numBin op a b
    else if ["|", "^"].contains op then intBin op a b
    else relOp op a b
  | .cond c a b => do
    if ← hasErr then return .nil
    match ← eval data c with
    | .bool true => eval data a
    | .bool false => eval data b
    | _ => setErr
  | .field e _ n => do
    if ← hasErr then return .nil
    let pv ← eval data e
    match getValue n pv with
    | .found v => return v
    | _ => setErr
  | .index e i => do
    if ← hasErr then return .nil
    let pv ← eval data e
    let iv ← eval data i
    let name? := match iv with
      | .int .int64 v => some (toString v)
      | .str s => some s
      | _ => none
    match name? with
    | none => setErr
    | some n => match getValue n pv with
      | .found v => return v
      | _ => setErr
  | .slice e lo hi cap => do
    if ← hasErr then return .nil
    let pv ← eval data e
    match pv with
    | .slice sty xs c =>
      let getI (x : Option E) (dflt : Int) : M (Option Int) := do
        match x with
        | none => return some dflt
        | some ex => match ← eval data ex with
          | .int .int64 v => return some v
          | _ => return none
      match ← getI lo 0 with
      | none => setErr
      | some s =>
        match ← getI hi xs.length with
        | none => setErr
        | some en =>
          match cap with
          | none =>
            if 0 ≤ s ∧ s ≤ en ∧ en ≤ c then
              if en.toNat ≤ xs.length then return .slice sty ((xs.drop s.toNat).take (en.toNat - s.toNat)) (c - s.toNat)
              else goPanic    -- beyond len within cap: outside the experiment (cap = len there)
            else goPanic
          | some cx =>
            match ← getI (some cx) 0 with
            | none => setErr
            | some m =>
              if 0 ≤ s ∧ s ≤ en ∧ en ≤ m ∧ m ≤ c then
                if en.toNat ≤ xs.length then return .slice sty ((xs.drop s.toNat).take (en.toNat - s.toNat)) (m.toNat - s.toNat)
                else goPanic
              else goPanic
    | .array _ _ =>
      -- bounds are evaluated first, then reflect.Value.Slice panics: unaddressable array
      let chk (x : Option E) : M Bool := do
        match x with
        | none => return true
        | some ex => match ← eval data ex with
          | .int .int64 _ => return true
          | _ => return false
      if !(← chk lo) then setErr
      else if !(← chk hi) then setErr
      else if !(← chk cap) then setErr
      else goPanic
    | _ => setErr
  | .call e args ell => do
    if ← hasErr then return .nil
    let pv ← eval data e
    if !isFuncVal pv then setErr
    else
      let mut vs : List Val := []
      if !args.isEmpty then
        if ← hasErr then return .nil
        for a in args do
          vs := vs ++ [← eval data a]
        if ← hasErr then return .nil
      if ell then
        match vs.getLast? with
        | some (.slice _ xs _) => vs := vs.dropLast ++ xs
        | _ => return ← setErr
      let r := callFn pv vs
      let nm := match pv with | .func id => id | .meth _ n _ => n | _ => "?"
      let nilRecvPtr := match pv with | .meth _ "Ptr" (.ptr _ _ none) => vs.isEmpty | _ => false
      let entered := r.isSome || (nm == "boom" && vs.isEmpty) || nilRecvPtr
      if entered && ["ok", "inc", "fail", "boom", "two", "Get", "Ptr"].contains nm then logCall nm
      match r with
      | none => setErr
      | some ([r], none) => return r
      | some ([_, _], none) => setErr
      | some ([r, _], some sentinel) => if sentinel then setErr true else return r
      | some ([_], some _) => setErr
      | _ => setErr

def canon : Val → String
  | .nil => "nil"
  | .bool b => s!"bool:{b}"
  | .int k v => s!"{k.name}:{v}"
  | .f64 x => s!"float64:{x.toBits}"
  | .f32 x => s!"float32:{x.toBits}"
  | .str s => s!"string:{EL.hexOf s}"
  | .slice _ _ _ => "slice"
  | .array _ _ => "array"
  | .map _ _ => "map"
  | .struct ty _ => s!"struct:{ty}"
  | .ptr ty _ _ => s!"ptr:{ty}"
  | .func _ => "func"
  | .meth _ _ _ => "func"

def canonDeep : Val → String
  | .slice _ xs _ => "[" ++ " ".intercalate (xs.map canon) ++ "]"
  | v => canon v

/-- the fixed environment of the experiment (mirrors go-probes/eval_diff) -/
def sVal (a : Int) (p : Option Val) : Val :=
  .struct "S" [("A", true, false, .int .int a), ("B", true, false, .str "b"), ("c", false, false, .int .int 2),
    ("P", true, false, .ptr "S" (100 + a.toNat) p), ("L", true, false, .slice "[]int" [.int .int 1, .int .int 2] 2),
    ("M", true, false, .map "map[string]interface {}" [("x", .int .int 1)]), ("In", true, true, .struct "In" [("Z", true, false, .int .int 9)])]

def env : Val :=
  .map "map[string]interface {}" [("i", .int .int 5), ("i8", .int .int8 (-3)), ("u8", .int .uint8 200), ("i64", .int .int64 7), ("u64", .int .uint64 9),
    ("f", .f64 2.5), ("f32", .f32 1.5), ("s", .str "str"), ("t", .bool true), ("n", .nil),
    ("xs", .slice "[]int" [.int .int 10, .int .int 20, .int .int 30] 3), ("arr", .array "[2]string" [.str "p", .str "q"]),
    ("ys", .slice "[]interface {}" [.int .int 1, .str "a", .nil] 3),
    ("m", .map "map[string]interface {}" [("k", .int .int 1), ("nil", .nil), ("s", .str "v"), ("xs", .slice "[]int" [.int .int 1] 1)]),
    ("st", sVal 1 none), ("ps", .ptr "S" 1 (some (sVal 2 (some (sVal 3 none))))), ("np", .ptr "S" 0 none),
    ("ok", .func "ok"), ("inc", .func "inc"), ("fail", .func "fail"), ("boom", .func "boom"), ("two", .func "two")]

def run (src : String) : String :=
  match EL.parseCode src with
  | .unsupported => "unsupported"
  | .reject => "reject"
  | .accept e =>
    match (eval [env] e).run {} with
    | .error () => "panic"
    | .ok (v, st) =>
      let calls := ",".intercalate st.calls.reverse
      match st.err with
      | some err => s!"err sentinel={err.sentinel} calls={calls}"
      | none =>
        let c := canonDeep v
        if (c.splitOn "00554e535550504f52544544").length > 1 then "unsupported" else s!"ok {c} calls={calls}"

end EV
