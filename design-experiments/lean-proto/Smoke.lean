-- Throw-away feasibility prototypes for /verif/DESIGN.md (§12). Not the framework.
import Smoke.Basic
import Smoke.Render
import Smoke.RenderProof
import Smoke.Refine
import Smoke.Scan
import Smoke.ScanProof
import Smoke.Prec
import Smoke.Tree
import Smoke.ScanNoPanic
import Smoke.ExpParse
import Smoke.CodeScan
import Smoke.Eval
import Smoke.Full
